"""C08: an input that is not encrypted is never rejected as encrypted.
is_odf_encrypted() searches the raw text of META-INF/manifest.xml for the substrings
'encryption-data', 'manifest:encrypted', 'manifest:algorithm'.  The manifest also lists the names of
all package members, so an ordinary, unencrypted ODT whose picture keeps its original file name
(odfpy's addPicture(), docx->odt converters, ODP media files) is refused as password-protected."""
import io
import os
import struct
import sys
import zipfile
import zlib

sys.path.insert(0, os.getcwd())

NS = (
    'xmlns:office="urn:oasis:names:tc:opendocument:xmlns:office:1.0" '
    'xmlns:text="urn:oasis:names:tc:opendocument:xmlns:text:1.0" '
    'xmlns:draw="urn:oasis:names:tc:opendocument:xmlns:drawing:1.0" '
    'xmlns:svg="urn:oasis:names:tc:opendocument:xmlns:svg-compatible:1.0" '
    'xmlns:xlink="http://www.w3.org/1999/xlink"'
)


def png() -> bytes:
    def chunk(kind, data):
        body = kind + data
        return struct.pack(">I", len(data)) + body + struct.pack(">I", zlib.crc32(body) & 0xFFFFFFFF)

    return (b"\x89PNG\r\n\x1a\n" + chunk(b"IHDR", struct.pack(">IIBBBBB", 1, 1, 8, 2, 0, 0, 0))
            + chunk(b"IDAT", zlib.compress(b"\x00\xff\x00\x00")) + chunk(b"IEND", b""))


def build_odt(picture_name: str) -> bytes:
    content = (
        f'<?xml version="1.0" encoding="UTF-8"?><office:document-content {NS} office:version="1.2">'
        "<office:body><office:text><text:p>Security whitepaper, figure 1:</text:p>"
        '<text:p><draw:frame draw:name="Figure1" svg:width="5cm" svg:height="3cm">'
        f'<draw:image xlink:href="Pictures/{picture_name}" xlink:type="simple"/></draw:frame></text:p>'
        "</office:text></office:body></office:document-content>"
    )
    manifest = (
        '<?xml version="1.0" encoding="UTF-8"?>'
        '<manifest:manifest xmlns:manifest="urn:oasis:names:tc:opendocument:xmlns:manifest:1.0" manifest:version="1.2">'
        '<manifest:file-entry manifest:full-path="/" manifest:media-type="application/vnd.oasis.opendocument.text"/>'
        '<manifest:file-entry manifest:full-path="content.xml" manifest:media-type="text/xml"/>'
        f'<manifest:file-entry manifest:full-path="Pictures/{picture_name}" manifest:media-type="image/png"/>'
        "</manifest:manifest>"
    )
    buf = io.BytesIO()
    with zipfile.ZipFile(buf, "w") as zf:
        zf.writestr(zipfile.ZipInfo("mimetype"), "application/vnd.oasis.opendocument.text")
        zf.writestr("content.xml", content)
        zf.writestr("META-INF/manifest.xml", manifest)
        zf.writestr(f"Pictures/{picture_name}", png())
    return buf.getvalue()


def main() -> int:
    import logging

    logging.disable(logging.CRITICAL)
    from sharepoint2text.parsing.exceptions import ExtractionFileEncryptedError
    from sharepoint2text.parsing.extractors.open_office.odt_extractor import read_odt

    bad = 0
    for picture in ("figure1.png", "encryption-data-flow.png"):
        data = build_odt(picture)
        try:
            result = list(read_odt(io.BytesIO(data), "whitepaper.odt"))[0]
            print(f"picture {picture!r}: extracted text={result.get_full_text()!r} images={len(result.images)}")
        except ExtractionFileEncryptedError as exc:
            print(f"picture {picture!r}: rejected: {type(exc).__name__}: {exc}")
            bad += 1
    print("expected: both documents are extracted - neither has a <manifest:encryption-data> element, "
          "every member is stored in clear")
    return 1 if bad else 0


if __name__ == "__main__":
    sys.exit(main())
