r"""C02 - RTF: \'xx escapes are bytes in the document's ANSI code page
(\ansicpgN); the reader turns each into chr(0xXX), i.e. always Latin-1. Text
written by WordPad / Word in any other code page comes out as mojibake, and the
cp1252 punctuation 0x80-0x9F (curly quotes, dashes, euro sign) becomes C1 control
characters."""
import io
import os
import sys

sys.path.insert(0, os.getcwd())
import logging

logging.disable(logging.CRITICAL)

from sharepoint2text.parsing.extractors.ms_legacy.rtf_extractor import read_rtf

BS = "\\"


def hexed(text: str, codepage: str) -> str:
    out = []
    for ch in text:
        b = ch.encode(codepage)
        out.append(ch if b[0] < 0x80 else "".join(f"{BS}'{x:02x}" for x in b))
    return "".join(out)


def wordpad(text: str, cpg: int, charset: int) -> bytes:
    return (
        "{" + BS + "rtf1" + BS + "ansi" + BS + f"ansicpg{cpg}" + BS + "deff0" + BS + "nouicompat"
        "{" + BS + "fonttbl{" + BS + "f0" + BS + "fnil" + BS + f"fcharset{charset} Calibri;}}}}"
        + BS + "pard" + BS + "f0" + BS + "fs22 " + hexed(text, f"cp{cpg}") + BS + "par}"
    ).encode("ascii")


cases = [
    ("Привет, мир!", 1251, 204),                    # "Привет, мир!" (Russian WordPad)
    ("It’s “quoted” – 5€", 1252, 0),                 # It’s “quoted” – 5€ (Western WordPad)
]
violated = False
for text, cpg, charset in cases:
    rtf = wordpad(text, cpg, charset)
    result = next(iter(read_rtf(io.BytesIO(rtf), None)))
    full = result.get_full_text()
    print("source  :", rtf.decode())
    print("observed:", repr(full))
    print("expected:", repr(text))
    if full != text:
        violated = True
        print("VIOLATION: the visible text is not in the output; characters that are not in the document are")
    print()
sys.exit(1 if violated else 0)
