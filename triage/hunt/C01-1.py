"""C01 - termination: a 24 KB RTF keeps read_rtf busy for far longer than any
budget (cubic regex backtracking in the picture scanner)."""
import io
import os
import signal
import sys
import time

sys.path.insert(0, os.getcwd())
import logging

logging.disable(logging.CRITICAL)

from sharepoint2text.parsing.exceptions import ExtractionError
from sharepoint2text.parsing.extractors.ms_legacy.rtf_extractor import read_rtf

BUDGET = 10  # seconds; well-formed RTF of 500 KB needs ~0.1 s


class Timeout(BaseException):
    pass


def _alarm(*_):
    raise Timeout()


signal.signal(signal.SIGALRM, _alarm)


def run(n: int) -> tuple[float, str]:
    # "{\pict" groups that are never closed: hostile, but only 6 bytes each
    data = b"{\\rtf1\\ansi " + b"{\\pict" * n
    start = time.time()
    signal.alarm(BUDGET)
    try:
        try:
            list(read_rtf(io.BytesIO(data), "x.rtf"))
            status = "finished"
        except ExtractionError as exc:
            status = f"raised {type(exc).__name__}"
        except Timeout:
            status = f"STILL RUNNING after {BUDGET}s (aborted by the demo)"
    finally:
        signal.alarm(0)
    return time.time() - start, status


violated = False
for n in (250, 500, 1000, 4000):
    elapsed, status = run(n)
    size = 12 + 6 * n
    print(f"{size:6d} bytes of RTF ({n} x '{{\\pict'): {elapsed:6.2f}s  {status}")
    if "STILL RUNNING" in status:
        violated = True

print()
print("observed: the time grows ~8x when the input doubles (cubic); 24 KB do not finish in 10 s,")
print("          a few hundred KB would run for days")
print("expected: the call terminates (result or ExtractionError) in time proportional to the input")
sys.exit(1 if violated else 0)
