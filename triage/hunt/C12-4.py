"""C12: run time stays within a fixed multiple of the input size.

_RtfParser._extract_tables() pairs every \\trowd with "the first \\row behind it"
by scanning the list of all \\row positions from the start (O(rows^2)), and it
re-parses the text from EVERY \\trowd up to that \\row.  Consequences:

 * an ordinary Word/SAS/Crystal RTF with one long table: time grows with the
   square of the number of rows (2 \\trowd per row, as Word writes them);
 * a 30 kB file with many \\trowd before a single \\row: every one of them
   re-extracts all cells up to the \\row -> seconds per 10 kB, minutes for 60 kB.
"""
import io
import logging
import os
import sys
import time

sys.path.insert(0, os.getcwd())
logging.disable(logging.CRITICAL)
from sharepoint2text.parsing.extractors.ms_legacy.rtf_extractor import read_rtf  # noqa: E402

HEAD = b"{\\rtf1\\ansi\\deff0{\\fonttbl{\\f0 Arial;}}\n"
WORD_ROW = (
    b"\\trowd\\trgaph108\\cellx3000\\cellx6000\\pard\\intbl Item %d\\cell Value\\cell"
    b"{\\trowd\\trgaph108\\cellx3000\\cellx6000\\row}\n"
)


def long_table(rows):
    return HEAD + b"".join(WORD_ROW % i for i in range(rows)) + b"\\pard\\par}"


def many_trowd(n):
    return HEAD + b"\\trowd\\cellx1000 x\\cell " * n + b"\\row\\pard\\par}"


def plain(n):  # same size class, no table: the linear baseline
    return HEAD + b"Item 1234 Value\\par\n" * n + b"}"


def timed(data):
    t0 = time.perf_counter()
    list(read_rtf(io.BytesIO(data), "a.rtf"))
    return time.perf_counter() - t0


def series(label, make, sizes):
    out = []
    for n in sizes:
        data = make(n)
        dt = timed(data)
        out.append((n, len(data), dt))
        print("  %-28s n=%6d  %8d bytes  %6.2f s  (%.1f us/byte)" % (label, n, len(data), dt, dt / len(data) * 1e6))
    return out


def main() -> int:
    print("baseline (no table):")
    series("plain paragraphs", plain, (30000, 60000))
    print("one long table, rows written the way Word writes them:")
    a = series("long table", long_table, (4000, 8000, 16000))
    print("many \\trowd before one \\row (hostile, tiny):")
    b = series("trowd flood", many_trowd, (500, 1000))

    bad = False
    for name, s in (("long table", a), ("trowd flood", b)):
        (n1, size1, t1), (n2, size2, t2) = s[-2], s[-1]
        growth = t2 / max(t1, 1e-9)
        print("%s: input x%.1f -> time x%.1f" % (name, size2 / size1, growth))
        if growth > 2.8 and t2 > 1.0:
            bad = True
    print("property demands: time within a fixed multiple of the input size (doubling the input about doubles the time)")
    return 1 if bad else 0


if __name__ == "__main__":
    sys.exit(main())
