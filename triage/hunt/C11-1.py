"""C11: the guard rejects exactly when a limit is exceeded; directory entries are ignored.

validate_zipfile() skips directory entries for every size / ratio clause, but the
entry-count clause compares len(zf.infolist()) - directories included - with
max_entries.  A container whose FILE entries are within the limit is rejected
as a zip bomb because of its (empty, harmless) directory entries.
"""
import io
import os
import sys
import zipfile

sys.path.insert(0, os.getcwd())
from sharepoint2text.parsing.exceptions import ExtractionZipBombError  # noqa: E402
from sharepoint2text.parsing.extractors.util.zip_bomb import (  # noqa: E402
    DEFAULT_ZIP_BOMB_LIMITS,
    ZipBombLimits,
    validate_zip_bytesio,
    validate_zipfile,
)


class FakeZip:
    def __init__(self, infos):
        self._infos = infos

    def infolist(self):
        return self._infos


def info(name, file_size=0, compress_size=0):
    zi = zipfile.ZipInfo(name)
    zi.file_size, zi.compress_size = file_size, compress_size
    return zi


def verdict(fn):
    try:
        fn()
        return "accepted"
    except ExtractionZipBombError as exc:
        return "REJECTED (%s)" % exc


def main() -> int:
    bad = False

    # 1. synthetic vector, lowered limit: 3 files (= limit) + 2 directories
    limits = ZipBombLimits(max_entries=3)
    files = [info("a.xml", 10, 10), info("b.xml", 10, 10), info("c.xml", 10, 10)]
    dirs = [info("word/"), info("word/media/")]
    v_files = verdict(lambda: validate_zipfile(FakeZip(files), limits=limits))
    v_mixed = verdict(lambda: validate_zipfile(FakeZip(dirs + files), limits=limits))
    print("max_entries=3, 3 files               ->", v_files)
    print("max_entries=3, 3 files + 2 dir entries ->", v_mixed)
    if v_files != "accepted" or v_mixed != "accepted":
        bad = True

    # 2. real ZIP, default limits: an ODF-like package with 50 000 tiny parts and
    #    the directory entries LibreOffice writes (Configurations2/, Pictures/ ...)
    buf = io.BytesIO()
    with zipfile.ZipFile(buf, "w", zipfile.ZIP_STORED) as zf:
        zf.writestr("mimetype", "application/vnd.oasis.opendocument.text")
        for d in ("Configurations2/", "Pictures/", "Thumbnails/"):
            zf.writestr(zipfile.ZipInfo(d), b"")
        for i in range(DEFAULT_ZIP_BOMB_LIMITS.max_entries - 1):
            zf.writestr("Pictures/%05d.txt" % i, b"x")
    with zipfile.ZipFile(io.BytesIO(buf.getvalue())) as zf:
        n_files = sum(1 for i in zf.infolist() if not i.is_dir())
        n_dirs = sum(1 for i in zf.infolist() if i.is_dir())
    v_real = verdict(lambda: validate_zip_bytesio(io.BytesIO(buf.getvalue())))
    print("default limits (max_entries=%d), real ZIP with %d file entries + %d directory entries -> %s"
          % (DEFAULT_ZIP_BOMB_LIMITS.max_entries, n_files, n_dirs, v_real))
    if n_files <= DEFAULT_ZIP_BOMB_LIMITS.max_entries and v_real != "accepted":
        bad = True

    print("property demands: directory entries are ignored, so a container with <= max_entries file entries is accepted")
    return 1 if bad else 0


if __name__ == "__main__":
    sys.exit(main())
