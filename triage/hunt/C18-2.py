"""C18: ... repeating the call against a healthy transport returns the complete listing
(state: _access_token is cached after the first successful response).

Entra ID access tokens expire (expires_in, typically 3599 s).  The client caches the first token
for the lifetime of the object, ignores expires_in and never drops the token when Graph answers
401 InvalidAuthenticationToken.  After the token's lifetime every listing fails with 401, and so
does every repetition of the call, although the transport is perfectly healthy and would hand out
a fresh token at once.
"""
import io
import json
import os
import sys
from urllib.error import HTTPError

sys.path.insert(0, os.getcwd())

from sharepoint2text.sharepoint_io.client import (  # noqa: E402
    EntraIDAppCredentials,
    SharePointRestClient,
)
from sharepoint2text.sharepoint_io.exceptions import SharePointError  # noqa: E402


class Resp:
    def __init__(self, payload):
        self.status = 200
        self._body = json.dumps(payload).encode()

    def read(self):
        return self._body

    def close(self):
        pass


class Tenant:
    """Healthy Entra ID + Graph: tokens are valid for 3599 s of the simulated clock."""

    def __init__(self):
        self.now = 0
        self.issued = {}  # token -> expiry
        self.token_requests = 0

    def __call__(self, request, timeout=None):
        url = request.full_url
        if "login.microsoftonline.com" in url:
            self.token_requests += 1
            tok = f"tok{self.token_requests}"
            self.issued[tok] = self.now + 3599
            return Resp({"token_type": "Bearer", "expires_in": 3599, "access_token": tok})
        tok = (request.get_header("Authorization") or "").replace("Bearer ", "")
        if self.issued.get(tok, -1) <= self.now:
            body = json.dumps(
                {"error": {"code": "InvalidAuthenticationToken", "message": "Lifetime validation failed, the token is expired."}}
            ).encode()
            raise HTTPError(url, 401, "Unauthorized", {}, io.BytesIO(body))
        if "/drive/" not in url:
            return Resp({"id": "SITE"})
        if "/root/children" in url:
            return Resp(
                {
                    "value": [
                        {"id": "1", "name": "a.pdf", "file": {}, "webUrl": "u"},
                        {"id": "2", "name": "Docs", "folder": {}, "webUrl": "u"},
                    ]
                }
            )
        return Resp({"value": [{"id": "3", "name": "b.docx", "file": {}, "webUrl": "u"}]})


def attempt(client):
    try:
        return sorted(f.get_full_path() for f in client.list_all_files())
    except SharePointError as exc:
        return f"{type(exc).__name__}: {exc} (status {getattr(exc, 'status_code', None)})"


def main() -> int:
    tenant = Tenant()
    client = SharePointRestClient(
        "https://contoso.sharepoint.com/sites/demo",
        EntraIDAppCredentials("tenant", "client", "secret"),
        request_func=tenant,
    )
    complete = ["Docs/b.docx", "a.pdf"]
    first = attempt(client)
    print("t=0      listing:", first)
    tenant.now = 2 * 3600  # the sync service runs the next listing two hours later
    results = []
    for i in range(3):
        res = attempt(client)
        results.append(res)
        print(f"t=2h     attempt {i + 1}:", res)
    print("token requests sent in total:", tenant.token_requests)
    print("property demands: a failed call may raise the request error, but repeating the call")
    print("                  against the healthy transport returns the complete listing", complete)
    ok = first == complete and complete in results
    return 0 if ok else 1


if __name__ == "__main__":
    sys.exit(main())
