"""C08: a 7z archive whose header is encrypted too (7-Zip: "Encrypt file names", -mhe=on)
must be rejected with ExtractionFileEncryptedError like every other password-protected input."""
import io
import os
import struct
import sys
import tempfile
import zlib

sys.path.insert(0, os.getcwd())


def build_7z_with_encrypted_header() -> bytes:
    """Layout written by `7z a -pSECRET -mhe=on x.7z report.txt`:
    signature header | packed streams (AES-encrypted, LZMA-compressed header) | EncodedHeader.
    The real header (file names, folders) exists only inside the encrypted pack stream."""
    packed = bytes((i * 197 + 13) & 0xFF for i in range(48))  # ciphertext, 3 AES blocks
    aes_props = bytes([0x53 | 0xC0, 0x77]) + bytes(range(8)) + bytes(range(8, 16))  # 2^19 rounds, salt, iv
    folder = (
        b"\x02"  # two coders
        + b"\x23" + b"\x03\x01\x01" + b"\x05" + b"\x5d\x00\x00\x10\x00"  # LZMA + 5 property bytes
        + b"\x24" + b"\x06\xf1\x07\x01" + bytes([len(aes_props)]) + aes_props  # 7zAES
        + b"\x00\x01"  # bind pair: in 0 <- out 1
    )
    end_header = (
        b"\x17"  # EncodedHeader
        + b"\x06" + b"\x00" + b"\x01" + b"\x09" + bytes([len(packed)]) + b"\x00"  # PackInfo
        + b"\x07" + b"\x0b" + b"\x01" + b"\x00" + folder  # UnpackInfo / Folder
        + b"\x0c" + b"\x50" + b"\x2e"  # unpack sizes of the two coders
        + b"\x0a" + b"\x01" + struct.pack("<I", 0x12345678)  # CRC
        + b"\x00"
        + b"\x00"
    )
    start = struct.pack("<QQI", len(packed), len(end_header), zlib.crc32(end_header) & 0xFFFFFFFF)
    return (
        b"7z\xbc\xaf\x27\x1c" + b"\x00\x04" + struct.pack("<I", zlib.crc32(start) & 0xFFFFFFFF) + start
        + packed + end_header
    )


def main() -> int:
    import logging

    logging.disable(logging.CRITICAL)
    import sharepoint2text
    from sharepoint2text.parsing.exceptions import ExtractionFileEncryptedError
    from sharepoint2text.parsing.extractors.archive_extractor import read_archive

    data = build_7z_with_encrypted_header()
    outcomes = {}

    def run(label, fn):
        try:
            results = list(fn())
            outcomes[label] = f"returned {len(results)} result(s)"
        except ExtractionFileEncryptedError as exc:
            outcomes[label] = "ExtractionFileEncryptedError"
        except Exception as exc:  # noqa: BLE001
            outcomes[label] = f"{type(exc).__name__}: {exc}"

    run("read_archive", lambda: read_archive(io.BytesIO(data), "secret.7z"))
    with tempfile.TemporaryDirectory(dir="/tmp") as tmp:
        path = os.path.join(tmp, "secret.7z")
        with open(path, "wb") as fh:
            fh.write(data)
        run("read_file", lambda: sharepoint2text.read_file(path))

    for label, outcome in outcomes.items():
        print(f"{label}: {outcome}")
    print("expected: ExtractionFileEncryptedError through every entry point "
          "(the archive carries the 7zAES coder 06F10701 in its encoded header)")
    return 0 if all(o == "ExtractionFileEncryptedError" for o in outcomes.values()) else 1


if __name__ == "__main__":
    sys.exit(main())
