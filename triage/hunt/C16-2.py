"""C16: an e-mail forwarded as attachment (message/rfc822) inside an mbox:
the body of the ATTACHED message is appended to the body of the outer message,
the attached message itself is not listed as an attachment, and its own
attachment is reported as an attachment of the outer message."""
import io
import os
import sys
from email.message import EmailMessage

sys.path.insert(0, os.getcwd())

from sharepoint2text.parsing.extractors.mail.mbox_email_extractor import read_mbox_format_mail


def mk(body, subj, sender):
    m = EmailMessage()
    m["From"] = sender
    m["To"] = "bob@example.com"
    m["Subject"] = subj
    m["Date"] = "Mon, 01 Jan 2024 10:00:00 +0200"
    m.set_content(body + "\n")
    return m


inner = mk("CONFIDENTIAL inner text", "original message", "carol@example.com")
inner.add_attachment(b"%PDF-1.4 inner", maintype="application", subtype="pdf", filename="inner.pdf")
outer = mk("FYI, see attached mail.", "Fwd: original message", "alice@example.com")
outer.add_attachment(inner, filename="original message.eml")  # Content-Type: message/rfc822
outer.add_attachment(b"a;b\n1;2\n", maintype="text", subtype="csv", filename="outer.csv")

raw = b"From alice@example.com Mon Jan  1 10:00:00 2024\n" + outer.as_bytes() + b"\n"
msgs = list(read_mbox_format_mail(io.BytesIO(raw)))
m = msgs[0]
atts = [(a.filename, a.mime_type) for a in m.attachments]
print("results          :", len(msgs))
print("body_plain       :", repr(m.body_plain))
print("attachments      :", atts)
want_atts = [("original message.eml", "message/rfc822"), ("outer.csv", "text/csv")]
print("property demands : body 'FYI, see attached mail.'; attachments", want_atts,
      "(the attached message with its exact bytes; inner.pdf belongs to the attached message)")
bad = []
if m.body_plain != "FYI, see attached mail.":
    bad.append("the plain body contains the text of the attached message")
if atts != want_atts:
    bad.append(f"attachments are {atts}")
else:
    data = m.attachments[0].data.getvalue()
    if b"CONFIDENTIAL inner text" not in data or b"inner.pdf" not in data:
        bad.append("attached message bytes incomplete")
if bad:
    print("VIOLATED:")
    for b in bad:
        print("  ", b)
    sys.exit(1)
print("ok")
sys.exit(0)
