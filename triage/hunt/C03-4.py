"""C03 - XLSX: a workbook that contains a chart sheet (Excel: Move Chart > New
sheet) cannot be extracted at all: read_xlsx calls iter_rows() on every entry of
wb.sheetnames, a Chartsheet has no cells, the AttributeError becomes
ExtractionFailedError and the two ordinary worksheets are lost with it."""
import io
import os
import sys
import warnings

sys.path.insert(0, os.getcwd())
import logging

logging.disable(logging.CRITICAL)
warnings.filterwarnings("ignore")

import openpyxl
from openpyxl.chart import BarChart, Reference

from sharepoint2text.parsing.exceptions import ExtractionError
from sharepoint2text.parsing.extractors.ms_modern.xlsx_extractor import read_xlsx

wb = openpyxl.Workbook()
ws = wb.active
ws.title = "Data"
ws.append(["Region", "Revenue"])
for i, region in enumerate(["North", "South", "West"], start=1):
    ws.append([region, i * 100])
notes = wb.create_sheet("Notes")
notes.append(["Remark", "FiguresArePreliminary"])
chart_sheet = wb.create_chartsheet("RevenueChart", 1)  # between the two worksheets
chart = BarChart()
chart.add_data(Reference(ws, min_col=2, min_row=1, max_row=4), titles_from_data=True)
chart_sheet.add_chart(chart)
buf = io.BytesIO()
wb.save(buf)

print("sheets in the workbook:", wb.sheetnames)
try:
    result = next(iter(read_xlsx(io.BytesIO(buf.getvalue()), "report.xlsx")))
except ExtractionError as exc:
    print(f"observed: {type(exc).__name__}: {exc}  (cause: {exc.__cause__!r})")
    print("expected: one unit per sheet in workbook order - 'Data' (1) and 'Notes' (3) with their cells,")
    print("          the chart sheet as an empty unit (2) or skipped - not a failure of the whole file")
    sys.exit(1)

units = [(u.get_metadata().unit_number, u.get_text()) for u in result.iterate_units()]
print("observed units:", units)
text = result.get_full_text()
ok = "North" in text and "FiguresArePreliminary" in text
sys.exit(0 if ok else 1)
