"""C08: a PDF encrypted with the EMPTY user password must extract the same content as its
unencrypted original - for every algorithm (RC4-40/128, AES-128, AES-256).

The AES-128 (V4/R4, AESV2) variant is what Acrobat 7+/LibreOffice/qpdf write for an
"owner password only / restrict printing" PDF.  Its password check needs only MD5+RC4, so
PdfReader() opens it without the DependencyError that triggers patch_pypdf_fallback_aes();
the first AES stream then fails during page extraction."""
import base64
import io
import os
import subprocess
import sys
import textwrap

sys.path.insert(0, os.getcwd())

TEXT = "Quarterly report 2031 - printing restricted"

BUILDER = textwrap.dedent(
    '''
    import base64, io, os, sys
    sys.path.insert(0, os.getcwd())
    from pypdf import PdfReader, PdfWriter
    from pypdf.generic import DecodedStreamObject, DictionaryObject, NameObject
    from sharepoint2text.parsing.extractors.pdf._pypdf_aes_fallback import patch_pypdf_fallback_aes

    def plain(text):
        w = PdfWriter()
        page = w.add_blank_page(width=400, height=200)
        font = DictionaryObject({NameObject("/Type"): NameObject("/Font"),
                                 NameObject("/Subtype"): NameObject("/Type1"),
                                 NameObject("/BaseFont"): NameObject("/Helvetica")})
        page[NameObject("/Resources")] = DictionaryObject(
            {NameObject("/Font"): DictionaryObject({NameObject("/F1"): w._add_object(font)})})
        s = DecodedStreamObject()
        s.set_data(("BT /F1 12 Tf 20 100 Td (%s) Tj ET" % text).encode())
        page[NameObject("/Contents")] = w._add_object(s)
        out = io.BytesIO(); w.write(out); return out.getvalue()

    text, algorithm = sys.argv[1], sys.argv[2]
    data = plain(text)
    if algorithm != "none":
        patch_pypdf_fallback_aes()          # only the *builder* process needs AES for writing
        w = PdfWriter(); w.append_pages_from_reader(PdfReader(io.BytesIO(data)))
        w.encrypt(user_password="", owner_password="owner-secret", algorithm=algorithm)
        out = io.BytesIO(); w.write(out); data = out.getvalue()
    sys.stdout.write(base64.b64encode(data).decode())
    '''
)


def build(algorithm: str) -> bytes:
    """The PDF is produced in a helper process so that this process stays unpatched/fresh."""
    out = subprocess.run(
        [sys.executable, "-c", BUILDER, TEXT, algorithm],
        capture_output=True, text=True, timeout=20, check=True, cwd=os.getcwd(),
    )
    return base64.b64decode(out.stdout)


def main() -> int:
    import logging

    logging.disable(logging.CRITICAL)
    from sharepoint2text.parsing.extractors.pdf.pdf_extractor import read_pdf

    original = list(read_pdf(io.BytesIO(build("none"))))[0].get_full_text()
    print(f"unencrypted original : {original!r}")
    bad = 0
    for algorithm in ("RC4-128", "AES-128"):
        data = build(algorithm)
        try:
            text = list(read_pdf(io.BytesIO(data)))[0].get_full_text()
            outcome = repr(text)
            ok = text == original
        except Exception as exc:  # noqa: BLE001
            outcome = f"{type(exc).__name__}: {exc} (cause: {exc.__cause__!r})"
            ok = False
        print(f"{algorithm:8s} empty user pw: {outcome}")
        bad += not ok
    print("expected: every empty-password variant extracts exactly the text of the original")
    return 1 if bad else 0


if __name__ == "__main__":
    sys.exit(main())
