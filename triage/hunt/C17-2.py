"""C17: the content of comments never appears in the extracted text.

A comment whose text contains '--' followed by blanks and '>' (an ASCII arrow "-- >", or
commented-out code such as "while (i-- > 0)") is legal HTML: the comment ends only at '-->'
(or '--!>').  html.parser of the supported interpreter (3.12) ends it at the first '--\\s*>', and
the extractor takes everything behind that as visible text.
"""
import io
import os
import sys

sys.path.insert(0, os.getcwd())

BODY = (
    "<p>Visible before</p>\n"
    "<!-- breadcrumb: Home -- > Products -- > HIDDEN-WIDGETS -->\n"
    "<!-- for (var i = 3; i-- > 0;) { HIDDEN-CODE(); } -->\n"
    "<p>Visible after</p>"
)
PAGE = (
    "<!DOCTYPE html><html><head><meta charset='utf-8'><title>t</title></head><body>"
    + BODY
    + "</body></html>"
)
HIDDEN = ["HIDDEN-WIDGETS", "HIDDEN-CODE", "Products", "-->"]


def mhtml(page: str) -> bytes:
    return (
        "From: <Saved by Blink>\r\nSubject: t\r\nMIME-Version: 1.0\r\n"
        'Content-Type: multipart/related; type="text/html"; boundary="----B"\r\n\r\n'
        "------B\r\nContent-Type: text/html\r\nContent-Transfer-Encoding: 8bit\r\n"
        "Content-Location: http://example.com/\r\n\r\n" + page + "\r\n------B--\r\n"
    ).encode("utf-8")


def main() -> int:
    from sharepoint2text.parsing.extractors.html_extractor import html_to_text, read_html
    from sharepoint2text.parsing.extractors.mhtml_extractor import read_mhtml

    results = {
        "HTML  (read_html)   ": next(read_html(io.BytesIO(PAGE.encode()))).content,
        "MHTML (read_mhtml)  ": next(read_mhtml(io.BytesIO(mhtml(PAGE)))).content,
        "mail  (html_to_text)": html_to_text(BODY),
    }
    bad = False
    for name, text in results.items():
        leaked = [h for h in HIDDEN if h in text]
        print(f"{name}: {text!r}")
        if leaked:
            print(f"   -> comment content in the text: {leaked}")
            bad = True
        if "Visible before" not in text or "Visible after" not in text:
            print("   -> visible text lost")
            bad = True
    print("property demands: 'Visible before' / 'Visible after' only; nothing of the two comments")
    return 1 if bad else 0


if __name__ == "__main__":
    sys.exit(main())
