r"""C02 - RTF control words that begin with the letter u (\uc1, \ul, \ulnone,
\up6, \ulw ...) leak into the text: the reader takes every "\u" for a Unicode
escape and, when no number follows, drops only the two characters "\u"."""
import io
import os
import sys

sys.path.insert(0, os.getcwd())
import logging

logging.disable(logging.CRITICAL)

from sharepoint2text.parsing.extractors.ms_legacy.rtf_extractor import read_rtf

BS = "\\"
# What Word / WordPad write: \uc1 in the header, \ul ... \ulnone around underlined
# text, \up6 for superscript.
rtf = (
    "{" + BS + "rtf1" + BS + "ansi" + BS + "ansicpg1252" + BS + "uc1" + BS + "deff0"
    "{" + BS + "fonttbl{" + BS + "f0 Arial;}}"
    + BS + "pard Hello {" + BS + "ul underlined} and " + BS + "ul also" + BS + "ulnone  plain, x{" + BS + "up6 2}"
    + BS + "par}"
).encode("ascii")

result = next(iter(read_rtf(io.BytesIO(rtf), None)))
full = result.get_full_text()
units = [u.get_text() for u in result.iterate_units()]
expected = "Hello underlined and also plain, x2"

print("source  :", rtf.decode())
print("observed:", repr(full))
print("units   :", units)
print("expected:", repr(expected), "(control words produce no text)")

norm = " ".join(full.split())
violated = norm != expected
if violated:
    print("VIOLATION: the output contains 'c1', 'l', 'lnone', 'p6' - text that is not in the document")
sys.exit(1 if violated else 0)
