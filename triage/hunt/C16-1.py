"""C16: body lines that the mbox writer escaped (">From ...") come back escaped.
The mailbox is written with the standard library's mailbox.mbox."""
import io
import mailbox
import os
import shutil
import sys
import tempfile
from email.message import EmailMessage

sys.path.insert(0, os.getcwd())

from sharepoint2text.parsing.extractors.mail.mbox_email_extractor import read_mbox_format_mail

BODIES = [
    "Hi team,\n\nFrom here on we plan for 2025.\nFrom Monday the office is closed.\n\nBye",
    "second message",
]


def mk(body, subj):
    m = EmailMessage()
    m["From"] = "alice@example.com"
    m["To"] = "bob@example.com"
    m["Subject"] = subj
    m["Date"] = "Mon, 01 Jan 2024 10:00:00 +0200"
    m.set_content(body + "\n")
    return m


d = tempfile.mkdtemp(dir="/tmp")
try:
    path = os.path.join(d, "box.mbox")
    mb = mailbox.mbox(path)
    for i, b in enumerate(BODIES):
        mb.add(mk(b, f"m{i}"))
    mb.flush()
    mb.close()
    raw = open(path, "rb").read()
finally:
    shutil.rmtree(d, ignore_errors=True)

print("---- mailbox as written by mailbox.mbox ----")
print(raw.decode())
got = [m.body_plain for m in read_mbox_format_mail(io.BytesIO(raw))]
print("returned bodies:", got)
print("property demands: one result per message with the plain body the sender wrote:", BODIES)
if got != BODIES:
    print("VIOLATED: the From_ escape character '>' added by the mbox format is part of the returned body")
    sys.exit(1)
print("ok")
sys.exit(0)
