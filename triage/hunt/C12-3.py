"""C12: extraction cost is bounded by the input size, irrespective of declared
dimensions.

An XLSX stores only the cells that exist.  read_xlsx() asks openpyxl (read-only
mode) for every row between the first and the last one, gets one padded tuple
per MISSING row, and then builds a dict (records), a list (all_rows) and a line of
text for each of them.  A 4.8 kB workbook with a header in A1 and one stray
character in the last row of the sheet (A1048576 - the classic "Ctrl+Down and a
slipped key") costs ~430 MB and several seconds; the cost follows the address of
the last cell, not the size of the file.
"""
import io
import os
import subprocess
import sys
import zipfile

import openpyxl

WORKER = r"""
import io, os, resource, sys, time
sys.path.insert(0, os.getcwd())
resource.setrlimit(resource.RLIMIT_AS, (3 << 30, 3 << 30))
from sharepoint2text.parsing.extractors.ms_modern.xlsx_extractor import read_xlsx
data = sys.stdin.buffer.read()
list(read_xlsx(io.BytesIO(open(sys.argv[1], "rb").read())))  # warm-up with a 1-cell workbook
base = resource.getrusage(resource.RUSAGE_SELF).ru_maxrss
t0 = time.perf_counter()
res = list(read_xlsx(io.BytesIO(data)))
dt = time.perf_counter() - t0
peak = resource.getrusage(resource.RUSAGE_SELF).ru_maxrss
print(max(0, peak - base) * 1024, dt, len(res[0].sheets[0].data), len(res[0].sheets[0].text))
"""


def make_xlsx(cells):
    wb = openpyxl.Workbook()
    ws = wb.active
    for ref, value in cells.items():
        ws[ref] = value
    buf = io.BytesIO()
    wb.save(buf)
    blob = buf.getvalue()
    with zipfile.ZipFile(io.BytesIO(blob)) as zf:
        raw = sum(i.file_size for i in zf.infolist())
    return blob, raw


def main() -> int:
    tiny_path = "/tmp/hunt-c12-3-tiny.xlsx"
    with open(tiny_path, "wb") as fh:
        fh.write(make_xlsx({"A1": "header"})[0])
    bad = False
    bound = 1000
    for cells in (
        {"A1": "header", "A2": "value"},
        {"A1": "header", "A262144": "x"},
        {"A1": "header", "A524288": "x"},
        {"A1": "header", "A1048576": "x"},
    ):
        blob, raw = make_xlsx(cells)
        out = subprocess.run([sys.executable, "-c", WORKER, tiny_path], input=blob, capture_output=True, timeout=120)
        if out.returncode != 0:
            print(cells, "worker failed:", out.stderr.decode()[-300:])
            bad = True
            continue
        mem, dt, rows, textlen = out.stdout.split()
        mem, dt, rows, textlen = int(mem), float(dt), int(rows), int(textlen)
        print("cells %-38s file %5d B, uncompressed %6d B -> %7.1f MB extra memory, %5.2f s, %8s rows, text %9s chars  (memory = %.0f x input)"
              % (sorted(cells), len(blob), raw, mem / 1e6, dt, rows, textlen, mem / raw))
        if mem > bound * raw:
            bad = True
    os.unlink(tiny_path)
    print("property demands: memory/time within a fixed multiple of the uncompressed input (checked against %d x); two cells are two cells" % bound)
    return 1 if bad else 0


if __name__ == "__main__":
    sys.exit(main())
