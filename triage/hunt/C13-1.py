"""C13: a DOCX table with a horizontally merged cell (w:gridSpan) or a row that
starts late (w:gridBefore) loses the grid position of the cells that follow."""
import io
import os
import sys
import zipfile

sys.path.insert(0, os.getcwd())

from sharepoint2text.parsing.extractors.ms_modern.docx_extractor import read_docx

W = "http://schemas.openxmlformats.org/wordprocessingml/2006/main"


def p(t):
    return f"<w:p><w:r><w:t>{t}</w:t></w:r></w:p>"


def tc(t, pr=""):
    return f"<w:tc><w:tcPr>{pr}</w:tcPr>{p(t)}</w:tc>"


def tr(cells, pr=""):
    return "<w:tr>" + (f"<w:trPr>{pr}</w:trPr>" if pr else "") + "".join(cells) + "</w:tr>"


def docx(body):
    z = io.BytesIO()
    with zipfile.ZipFile(z, "w") as f:
        f.writestr(
            "[Content_Types].xml",
            '<?xml version="1.0"?><Types xmlns="http://schemas.openxmlformats.org/package/2006/content-types">'
            '<Default Extension="rels" ContentType="application/vnd.openxmlformats-package.relationships+xml"/>'
            '<Default Extension="xml" ContentType="application/xml"/>'
            '<Override PartName="/word/document.xml" ContentType="application/vnd.openxmlformats-officedocument.wordprocessingml.document.main+xml"/></Types>',
        )
        f.writestr(
            "_rels/.rels",
            '<?xml version="1.0"?><Relationships xmlns="http://schemas.openxmlformats.org/package/2006/relationships">'
            '<Relationship Id="rId1" Type="http://schemas.openxmlformats.org/officeDocument/2006/relationships/officeDocument" Target="word/document.xml"/></Relationships>',
        )
        f.writestr(
            "word/document.xml",
            f'<?xml version="1.0"?><w:document xmlns:w="{W}"><w:body>{body}<w:sectPr/></w:body></w:document>',
        )
    z.seek(0)
    return z


# 3-column grid as Word writes it after "Merge Cells" on A1:B1
table = (
    "<w:tbl><w:tblPr/><w:tblGrid><w:gridCol w:w='1000'/><w:gridCol w:w='1000'/><w:gridCol w:w='1000'/></w:tblGrid>"
    + tr([tc("AB", '<w:gridSpan w:val="2"/>'), tc("C")])
    + tr([tc("a"), tc("b"), tc("c")])
    + tr([tc("z")], pr='<w:gridBefore w:val="2"/>')
    + "</w:tbl>"
)
doc = list(read_docx(docx(p("before") + table + p("after"))))[0]
tables = [t.get_table() for t in doc.iterate_tables()]
print("returned tables:", tables)
grid = tables[0]

# source grid: row0: AB spans col 0-1, C in col 2; row2: z sits in col 2
bad = []
if len(grid[0]) < 3 or grid[0][2] != "C":
    bad.append(f"row 0: source cell (0,2) is 'C' but returned row is {grid[0]}")
if len(grid[2]) < 3 or grid[2][2] != "z":
    bad.append(f"row 2: source cell (2,2) is 'z' but returned row is {grid[2]}")
print("property demands: cell (i,j) of the returned grid holds the text of source cell (i,j); "
      "a position covered by a merged cell is an (empty) position of the grid, as in the ODT/ODP/ODS readers")
if bad:
    print("VIOLATED:")
    for b in bad:
        print("  ", b)
    sys.exit(1)
print("ok")
sys.exit(0)
