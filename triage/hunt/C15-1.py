"""C15: the result of extracting an .eml depends on process history: an attachment
part without a file name (Exchange attaches forwarded items that way) is named with
characters drawn from the process-global `random` generator.  The same bytes give a
different result on every call, and each extraction advances the caller's RNG."""
import hashlib
import io
import json
import os
import random
import sys

sys.path.insert(0, os.getcwd())

from sharepoint2text.parsing.extractors.mail.eml_email_extractor import read_eml_format_mail
from sharepoint2text.parsing.extractors.mail.mbox_email_extractor import read_mbox_format_mail

EML = (
    "From: alice@example.com\r\nTo: bob@example.com\r\nSubject: FW: contract\r\n"
    "Date: Mon, 01 Jan 2024 10:00:00 +0000\r\nMessage-ID: <1@example.com>\r\nMIME-Version: 1.0\r\n"
    'Content-Type: multipart/mixed; boundary="_002_"\r\n\r\n'
    "--_002_\r\nContent-Type: text/plain; charset=us-ascii\r\n\r\nPlease see the attached item.\r\n"
    "--_002_\r\nContent-Type: message/rfc822\r\n"
    'Content-Disposition: attachment;\r\n\tcreation-date="Mon, 01 Jan 2024 09:59:00 GMT";\r\n'
    '\tmodification-date="Mon, 01 Jan 2024 09:59:00 GMT"\r\n\r\n'
    "From: carol@example.com\r\nTo: alice@example.com\r\nSubject: contract\r\n"
    "Date: Sun, 31 Dec 2023 10:00:00 +0000\r\nMIME-Version: 1.0\r\nContent-Type: text/plain; charset=us-ascii\r\n\r\n"
    "Signed copy follows.\r\n"
    "--_002_--\r\n"
).encode("ascii")


def digest(content):
    return hashlib.sha256(json.dumps(content.to_json(), sort_keys=True).encode()).hexdigest()[:16]


def extract():
    c = list(read_eml_format_mail(io.BytesIO(EML)))[0]
    return digest(c), [a.filename for a in c.attachments]


baseline = extract()
later = [extract() for _ in range(3)]
print("isolated baseline      :", baseline)
for i, r in enumerate(later, 1):
    print(f"same bytes, call {i + 1}     :", r)

# the caller's random stream before / after one extraction
random.seed(12345)
untouched = [random.random() for _ in range(2)]
random.seed(12345)
extract()
after = [random.random() for _ in range(2)]
print("caller RNG without extraction:", untouched)
print("caller RNG after extraction  :", after)

mbox = list(read_mbox_format_mail(io.BytesIO(b"From a@example.com Mon Jan  1 10:00:00 2024\n" + EML.replace(b"\r\n", b"\n"))))[0]
print("(.mbox reader names a nameless part deterministically:", [a.filename for a in mbox.attachments] or "no attachment listed", ")")

bad = []
if any(r != baseline for r in later):
    bad.append("to_json digest / attachment name of the same document differs between calls")
if after != untouched:
    bad.append("extraction consumed the process-global random state")
print("property demands: the result does not depend on what the process did before; global state is back to what it was")
if bad:
    print("VIOLATED:")
    for b in bad:
        print("  ", b)
    sys.exit(1)
print("ok")
sys.exit(0)
