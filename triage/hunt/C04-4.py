"""C04 - ODF document properties: keywords are stored as ONE <meta:keyword>
element PER keyword (LibreOffice splits the Keywords field at the commas).
extract_odf_metadata uses find(), i.e. only the first element, so every keyword
after the first is lost - for odt, ods, odp, odg and odf alike."""
import io
import os
import sys
import zipfile

sys.path.insert(0, os.getcwd())
import logging

logging.disable(logging.CRITICAL)

from sharepoint2text.parsing.extractors.open_office.odt_extractor import read_odt

NS = (
    'xmlns:office="urn:oasis:names:tc:opendocument:xmlns:office:1.0" '
    'xmlns:text="urn:oasis:names:tc:opendocument:xmlns:text:1.0" '
    'xmlns:dc="http://purl.org/dc/elements/1.1/" '
    'xmlns:meta="urn:oasis:names:tc:opendocument:xmlns:meta:1.0"'
)
keywords = ["budget", "forecast", "confidential"]
meta_xml = (
    f'<?xml version="1.0" encoding="UTF-8"?><office:document-meta {NS} office:version="1.3"><office:meta>'
    "<dc:title>Quarterly figures</dc:title><dc:subject>Finance</dc:subject>"
    + "".join(f"<meta:keyword>{k}</meta:keyword>" for k in keywords)
    + "<meta:generator>LibreOffice/7.6</meta:generator></office:meta></office:document-meta>"
)
mt = "application/vnd.oasis.opendocument.text"
buf = io.BytesIO()
with zipfile.ZipFile(buf, "w") as z:
    z.writestr("mimetype", mt)
    z.writestr(
        "META-INF/manifest.xml",
        '<?xml version="1.0"?><manifest:manifest xmlns:manifest="urn:oasis:names:tc:opendocument:xmlns:manifest:1.0">'
        f'<manifest:file-entry manifest:full-path="/" manifest:media-type="{mt}"/>'
        '<manifest:file-entry manifest:full-path="content.xml" manifest:media-type="text/xml"/>'
        '<manifest:file-entry manifest:full-path="meta.xml" manifest:media-type="text/xml"/></manifest:manifest>',
    )
    z.writestr(
        "content.xml",
        f'<?xml version="1.0" encoding="UTF-8"?><office:document-content {NS}><office:body><office:text>'
        "<text:p>Body</text:p></office:text></office:body></office:document-content>",
    )
    z.writestr("meta.xml", meta_xml)

result = next(iter(read_odt(io.BytesIO(buf.getvalue()), "figures.odt")))
meta = result.get_metadata()
print("stored in meta.xml :", keywords)
print("observed           : metadata.keywords =", repr(meta.keywords), "| title =", repr(meta.title))
print("expected           : all three keywords, e.g. 'budget, forecast, confidential'")
missing = [k for k in keywords if k not in (meta.keywords or "")]
print("missing            :", missing)
sys.exit(1 if missing else 0)
