"""C03 - .doc units: DocContent.iterate_units decides what a heading is by the
WORDS a line starts with ("chapter...", "subsection...", or the line "intro").
An ordinary body paragraph that begins with "Chapters ..." is taken out of the
body: it is in no unit text and not in get_full_text() any more.

Input: the repository's Word 97 fixture (copied next to this script), with the
first 32 characters of one body paragraph overwritten in memory (same length, the
file structure is untouched)."""
import io
import os
import sys

sys.path.insert(0, os.getcwd())
import logging

logging.disable(logging.CRITICAL)

from sharepoint2text.parsing.extractors.ms_legacy.doc_extractor import read_doc

here = os.path.dirname(os.path.abspath(__file__))
data = open(os.path.join(os.getcwd(), "sharepoint2text/tests/resources/legacy_ms/Speech_Prime_Minister_of_The_Netherlands_EN.doc"), "rb").read()

old = b"A very warm welcome to The Hague"
new = b"Chapters of history meet at Haag"
assert len(old) == len(new) and data.count(old) == 1
patched = data.replace(old, new)

MARK = "the heart of Dutch democracy"  # rest of the same paragraph

before = next(iter(read_doc(io.BytesIO(data), None)))
after = next(iter(read_doc(io.BytesIO(patched), None)))

para = next(line for line in after.main_text.splitlines() if MARK in line)
units = list(after.iterate_units())
in_units = [u.get_metadata().unit_number for u in units if MARK in u.get_text()]
print("paragraph in the document     :", repr(para.strip()))
print("original file: paragraph in get_full_text():", MARK in before.get_full_text())
print("patched  file: paragraph in main_text       :", MARK in after.main_text)
print("patched  file: paragraph in get_full_text() :", MARK in after.get_full_text())
print("patched  file: units containing it          :", in_units)
print("patched  file: units                        :", [(u.get_metadata().unit_number, [h[:40] for h in u.get_metadata().heading_path], len(u.get_text())) for u in units])
print("expected: the sentence is body text - it is returned in exactly one unit and in the full text")

violated = not in_units or MARK not in after.get_full_text()
if violated:
    print("VIOLATION: a body paragraph starting with the word 'Chapters' is dropped from every unit and from the full text")
sys.exit(1 if violated else 0)
