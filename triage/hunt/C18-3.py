"""C18: the filtered listings return every matching file ... date bounds are inclusive-after and
exclusive-before; if something fails the error is of the client's own family.

A date bound given as a naive datetime (datetime.utcnow(), datetime.now(), datetime(2024, 1, 1) -
the usual way to write 'since yesterday') is compared with the timezone-aware timestamp parsed
from Graph ('...Z').  Python refuses that comparison, so the listing dies with a TypeError in the
middle of the iteration - after the network requests, at the first file that carries a date.
"""
import json
import os
import sys
from datetime import datetime, timezone

sys.path.insert(0, os.getcwd())

from sharepoint2text.sharepoint_io.client import (  # noqa: E402
    EntraIDAppCredentials,
    FileFilter,
    SharePointRestClient,
)


class Resp:
    def __init__(self, payload):
        self.status = 200
        self._body = json.dumps(payload).encode()

    def read(self):
        return self._body

    def close(self):
        pass


FILES = [
    ("old.pdf", "2023-12-31T23:59:59Z"),
    ("edge.pdf", "2024-01-01T00:00:00Z"),
    ("new.pdf", "2024-01-02T08:30:00.1234567Z"),
]


def graph(request, timeout=None):
    url = request.full_url
    if "login.microsoftonline.com" in url:
        return Resp({"access_token": "tok"})
    if "/drive/" not in url:
        return Resp({"id": "SITE"})
    return Resp(
        {
            "value": [
                {"id": str(i), "name": n, "file": {}, "webUrl": "u", "lastModifiedDateTime": d, "createdDateTime": d}
                for i, (n, d) in enumerate(FILES)
            ]
        }
    )


def run(label, call):
    try:
        res = sorted(f.name for f in call())
        print(f"{label}: {res}")
        return res
    except Exception as exc:  # noqa: BLE001
        print(f"{label}: {type(exc).__name__}: {exc}")
        return exc


def main() -> int:
    client = SharePointRestClient(
        "https://contoso.sharepoint.com/sites/demo",
        EntraIDAppCredentials("t", "c", "s"),
        request_func=graph,
    )
    want = ["edge.pdf", "new.pdf"]
    aware = run(
        "aware bound 2024-01-01T00:00Z      ",
        lambda: client.list_files_modified_since(datetime(2024, 1, 1, tzinfo=timezone.utc)),
    )
    naive = run(
        "naive bound datetime(2024, 1, 1)   ",
        lambda: client.list_files_modified_since(datetime(2024, 1, 1)),
    )
    naive2 = run(
        "FileFilter(created_before=naive)   ",
        lambda: client.list_files_filtered(FileFilter(created_before=datetime(2024, 1, 1))),
    )
    print("property demands: files modified on/after the bound:", want, "(naive bound = UTC, like Graph),")
    print("                  created before the bound: ['old.pdf']; never a TypeError out of the listing")
    ok = aware == want and naive == want and naive2 == ["old.pdf"]
    return 0 if ok else 1


if __name__ == "__main__":
    sys.exit(main())
