"""C10: every supported member comes out, labelled with its name; a member that
cannot be handled affects only itself.

NTFS / 7-Zip on Windows allow file names of 255 UTF-16 units.  A name of 90 CJK
characters is 270+ bytes in UTF-8, more than the 255-byte limit of ext4/xfs/tmpfs.
The 7z path writes every member to a temp directory under its own name, gets
ENAMETOOLONG and refuses the WHOLE archive; the same members in a ZIP are fine.
"""
import io
import logging
import lzma
import os
import struct
import sys
import zipfile
import zlib

sys.path.insert(0, os.getcwd())
logging.disable(logging.CRITICAL)
from sharepoint2text.parsing.extractors.archive_extractor import read_archive  # noqa: E402


def num(v):
    first, mask = 0, 0x80
    for i in range(8):
        if v < (1 << (7 * (i + 1))):
            return bytes([first | (v >> (8 * i))]) + (v & ((1 << (8 * i)) - 1)).to_bytes(i, "little")
        first |= mask
        mask >>= 1
    return b"\xff" + v.to_bytes(8, "little")


def build_solid_7z(files):
    """One solid LZMA2 folder, plain header (what `7z a` writes, minus header compression)."""
    blob = b"".join(d for _, d in files)
    packed = lzma.compress(blob, format=lzma.FORMAT_RAW, filters=[{"id": lzma.FILTER_LZMA2, "dict_size": 1 << 20}])
    n = len(files)
    h = bytearray(b"\x01\x04")
    h += b"\x06" + num(0) + num(1) + b"\x09" + num(len(packed)) + b"\x00"
    h += b"\x07\x0b" + num(1) + b"\x00" + num(1) + b"\x21\x21" + num(1) + bytes([18])
    h += b"\x0c" + num(len(blob)) + b"\x00"
    h += b"\x08\x0d" + num(n) + b"\x09" + b"".join(num(len(d)) for _, d in files[:-1])
    h += b"\x0a\x01" + b"".join(struct.pack("<I", zlib.crc32(d)) for _, d in files) + b"\x00"
    h += b"\x00"
    names = b"\x00" + b"".join(nm.encode("utf-16-le") + b"\x00\x00" for nm, _ in files)
    h += b"\x05" + num(n) + b"\x11" + num(len(names)) + names + b"\x00\x00"
    start = struct.pack("<QQI", len(packed), len(h), zlib.crc32(bytes(h)))
    return b"7z\xbc\xaf\x27\x1c\x00\x04" + struct.pack("<I", zlib.crc32(start)) + start + packed + bytes(h)


def run(blob, path):
    try:
        return [(r.get_metadata().filename, r.get_full_text()) for r in read_archive(io.BytesIO(blob), path=path)]
    except Exception as exc:  # noqa: BLE001
        return "%s: %s" % (type(exc).__name__, str(exc)[:90] + "...")


def main() -> int:
    long_name = "議事録" * 30 + ".txt"  # 94 characters: legal on NTFS, 274 bytes in UTF-8
    files = [("a.txt", b"alpha"), (long_name, b"minutes of the meeting"), ("c.txt", b"gamma")]
    expected = [(n, d.decode()) for n, d in files]

    zbuf = io.BytesIO()
    with zipfile.ZipFile(zbuf, "w") as zf:
        for n, d in files:
            zf.writestr(n, d)
    got_zip = run(zbuf.getvalue(), "docs.zip")
    got_7z = run(build_solid_7z(files), "docs.7z")

    short = lambda res: res if isinstance(res, str) else [(n[:8] + ("..." if len(n) > 8 else ""), t) for n, t in res]  # noqa: E731
    print("name length: %d characters, %d UTF-8 bytes" % (len(long_name), len(long_name.encode())))
    print("ZIP ->", short(got_zip))
    print("7z  ->", short(got_7z))
    print("property demands: all three members, in order, labelled with their names (as the ZIP path does)")
    ok = got_7z == expected or got_7z == [expected[0], expected[2]]
    return 0 if ok else 1


if __name__ == "__main__":
    sys.exit(main())
