"""C10: every member is labelled with the member's FILE NAME and an
archive!/member path (and C09: hidden members produce no results).

ZIP archives written by .NET Framework < 4.6.1 (ZipFile.CreateFromDirectory) and
by PowerShell 5.0/5.1 Compress-Archive (module < 1.2.3) store the Windows path
separator '\\' in member names (host system = 0, FAT/Windows).  unzip, 7-Zip and
Python's zipfile on Windows treat it as the directory separator.  read_archive on
a POSIX host takes os.path.basename() of the raw name, so the "file name" of the
member is the whole path, the folder is lost, and a dot-file below a directory is
no longer recognised as hidden.
"""
import io
import os
import sys
import zipfile

sys.path.insert(0, os.getcwd())
from sharepoint2text.parsing.extractors.archive_extractor import read_archive  # noqa: E402


def make_zip(sep):
    buf = io.BytesIO()
    with zipfile.ZipFile(buf, "w", zipfile.ZIP_DEFLATED) as zf:
        for parts, data in (
            (("Reports", "Q1", "summary.txt"), b"first quarter"),
            (("Reports", ".draft.txt"), b"hidden draft"),
            (("index.txt",), b"index"),
        ):
            zi = zipfile.ZipInfo(sep.join(parts))
            zi.create_system = 0  # written on Windows
            zi.compress_type = zipfile.ZIP_DEFLATED
            zf.writestr(zi, data)
    return buf.getvalue()


def labels(blob):
    out = []
    for r in read_archive(io.BytesIO(blob), path="export.zip"):
        m = r.get_metadata()
        out.append((m.filename, m.folder_path, r.get_full_text()))
    return out


def main() -> int:
    reference = labels(make_zip("/"))
    windows = labels(make_zip("\\"))
    print("members written with '/'  ->", reference)
    print("members written with '\\' ->", windows)
    print("property demands: file names 'summary.txt' and 'index.txt' (folder export.zip!/Reports/Q1), no result for Reports\\.draft.txt")
    names = [n for n, _, _ in windows]
    ok = names == ["summary.txt", "index.txt"]
    return 0 if ok else 1


if __name__ == "__main__":
    sys.exit(main())
