"""C19: each structural element (delimiter, n-ary operator, accent) is rendered in its documented
form with its operands in place - optional property children present or absent.

The delimiter / operator / accent character is looked up with elem.find('.//m:begChr'),
'.//m:endChr', './/m:chr': a DESCENDANT search.  Word omits these property elements whenever the
default applies (parentheses, integral, hat).  The search then runs on into the operand and picks
the character of the first nested delimiter / operator / accent it meets.
"""
import os
import sys
from xml.etree import ElementTree as ET

sys.path.insert(0, os.getcwd())

from sharepoint2text.parsing.extractors.util.omml_to_latex import omml_to_latex  # noqa: E402

NS = 'xmlns:m="http://schemas.openxmlformats.org/officeDocument/2006/math"'


def r(t):
    return f"<m:r><m:t>{t}</m:t></m:r>"


def conv(inner):
    return omml_to_latex(ET.fromstring(f"<m:oMath {NS}>{inner}</m:oMath>"))


def d(content, beg=None, end=None):
    pr = ""
    if beg is not None:
        pr = f'<m:dPr><m:begChr m:val="{beg}"/><m:endChr m:val="{end}"/></m:dPr>'
    else:
        pr = "<m:dPr><m:ctrlPr/></m:dPr>"  # what Word writes for plain parentheses
    return f"<m:d>{pr}<m:e>{content}</m:e></m:d>"


CASES = [
    # (description, omml, expected)
    ("(1+|x|)   default parens around an absolute value", d(r("1+") + d(r("x"), "|", "|")), "(1+|x|)"),
    ("(a[i]+b)  default parens around brackets", d(r("a") + d(r("i"), "[", "]") + r("+b")), "(a[i]+b)"),
    (
        "hat over tilde (hat = default accent, no m:chr)",
        '<m:acc><m:accPr><m:ctrlPr/></m:accPr><m:e><m:acc><m:accPr><m:chr m:val="&#x303;"/></m:accPr>'
        f"<m:e>{r('x')}</m:e></m:acc></m:e></m:acc>",
        "\\hat{\\tilde{x}}",
    ),
    (
        "sum (explicit chr) whose body holds a vector accent - control",
        '<m:nary><m:naryPr><m:chr m:val="&#x2211;"/></m:naryPr><m:sub/><m:sup/><m:e><m:acc><m:accPr>'
        f'<m:chr m:val="&#x20d7;"/></m:accPr><m:e>{r("v")}</m:e></m:acc></m:e></m:nary>',
        "\\sum \\vec{v}",
    ),
    (
        "n-ary without chr whose body holds a product",
        '<m:nary><m:naryPr><m:ctrlPr/></m:naryPr><m:sub/><m:sup/><m:e><m:nary><m:naryPr>'
        f'<m:chr m:val="&#x220F;"/></m:naryPr><m:sub>{r("i")}</m:sub><m:sup/><m:e>{r("a")}</m:e></m:nary></m:e></m:nary>',
        None,  # outer operator is the default one, whatever it is it must not be \prod
    ),
]


def main() -> int:
    bad = False
    for desc, omml, expected in CASES:
        got = conv(omml)
        if expected is None:
            ok = not got.startswith("\\prod")
            expected = "<default operator> \\prod_{i} a"
        else:
            ok = got == expected
        print(f"{desc}\n    got      {got}\n    expected {expected}   {'ok' if ok else 'VIOLATION'}")
        bad |= not ok
    return 1 if bad else 0


if __name__ == "__main__":
    sys.exit(main())
