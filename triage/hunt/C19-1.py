"""C19: each structural element (... n-ary operator ...) is rendered in its documented LaTeX form
with every optional child / attribute present or absent.

In OMML the operator character of m:nary is optional and its default is the INTEGRAL (U+222B,
ECMA-376 part 1, 22.1.2.20 chr: "If this element is omitted, the default is the integral").
Word relies on that: an integral inserted from the equation gallery is written WITHOUT m:chr.
The converter falls back to U+2211, so every plain integral of a Word document becomes \\sum.
"""
import os
import sys
from xml.etree import ElementTree as ET

sys.path.insert(0, os.getcwd())

from sharepoint2text.parsing.extractors.util.omml_to_latex import omml_to_latex  # noqa: E402

NS = (
    'xmlns:m="http://schemas.openxmlformats.org/officeDocument/2006/math" '
    'xmlns:w="http://schemas.openxmlformats.org/wordprocessingml/2006/main"'
)
CTRL = '<m:ctrlPr><w:rPr><w:rFonts w:ascii="Cambria Math" w:hAnsi="Cambria Math"/><w:i/></w:rPr></m:ctrlPr>'


def run(t):
    return f'<m:r><w:rPr><w:rFonts w:ascii="Cambria Math"/></w:rPr><m:t>{t}</m:t></m:r>'


# exactly what Word 2016/365 writes for "Insert > Equation > Integral" filled with 0, 1, x dx
WORD_INTEGRAL = (
    f'<m:oMath {NS}><m:nary><m:naryPr><m:limLoc m:val="subSup"/>{CTRL}</m:naryPr>'
    f"<m:sub>{run('0')}</m:sub><m:sup>{run('1')}</m:sup><m:e>{run('x dx')}</m:e></m:nary></m:oMath>"
)
# the same with the (redundant) explicit operator, and a sum for comparison
EXPLICIT_INTEGRAL = WORD_INTEGRAL.replace("<m:naryPr>", '<m:naryPr><m:chr m:val="&#x222B;"/>')
EXPLICIT_SUM = WORD_INTEGRAL.replace("<m:naryPr>", '<m:naryPr><m:chr m:val="&#x2211;"/>')
# indefinite integral: limits hidden, no chr either
INDEFINITE = (
    f'<m:oMath {NS}><m:nary><m:naryPr><m:limLoc m:val="subSup"/><m:subHide m:val="1"/>'
    f'<m:supHide m:val="1"/>{CTRL}</m:naryPr><m:sub/><m:sup/><m:e>{run("f(x)dx")}</m:e></m:nary></m:oMath>'
)


def main() -> int:
    got = {
        "Word integral (no m:chr)   ": omml_to_latex(ET.fromstring(WORD_INTEGRAL)),
        "explicit m:chr U+222B      ": omml_to_latex(ET.fromstring(EXPLICIT_INTEGRAL)),
        "explicit m:chr U+2211 (sum)": omml_to_latex(ET.fromstring(EXPLICIT_SUM)),
        "indefinite integral, no chr": omml_to_latex(ET.fromstring(INDEFINITE)),
    }
    for k, v in got.items():
        print(f"{k}: {v}")
    print("property demands: '\\int_{0}^{1} x dx' for the first two, '\\sum_{0}^{1} x dx' for the")
    print("                  third, '\\int f(x)dx' for the last (absent m:chr = integral)")
    ok = (
        got["Word integral (no m:chr)   "] == "\\int_{0}^{1} x dx"
        and got["indefinite integral, no chr"] == "\\int f(x)dx"
    )
    return 0 if ok else 1


if __name__ == "__main__":
    sys.exit(main())
