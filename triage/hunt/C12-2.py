"""C12: archive members above the per-member limit are skipped WITHOUT being
decompressed into memory or onto disk.

ZIP and TAR honour this (the size is checked before zf.read / extractfile).  The
7z path filters the oversize member out of files_to_process, but then calls
SevenZipFile.extractall(), which decompresses EVERY folder into memory and writes
EVERY member into the temp directory - the 24 MB member (limit: 10 MB) included.
"""
import io
import logging
import lzma
import os
import struct
import sys
import tracemalloc
import zlib

sys.path.insert(0, os.getcwd())
logging.disable(logging.CRITICAL)
from sharepoint2text.parsing.extractors import archive_extractor  # noqa: E402
from sharepoint2text.parsing.extractors.archive_extractor import read_archive  # noqa: E402


def num(v):
    first, mask = 0, 0x80
    for i in range(8):
        if v < (1 << (7 * (i + 1))):
            return bytes([first | (v >> (8 * i))]) + (v & ((1 << (8 * i)) - 1)).to_bytes(i, "little")
        first |= mask
        mask >>= 1
    return b"\xff" + v.to_bytes(8, "little")


def build_7z(files):
    """One LZMA2 folder per file (7z a -ms=off), plain header."""
    flt = [{"id": lzma.FILTER_LZMA2, "dict_size": 1 << 20}]
    packed = [lzma.compress(d, format=lzma.FORMAT_RAW, filters=flt) for _, d in files]
    n = len(files)
    h = bytearray(b"\x01\x04")
    h += b"\x06" + num(0) + num(n) + b"\x09" + b"".join(num(len(p)) for p in packed) + b"\x00"
    h += b"\x07\x0b" + num(n) + b"\x00" + (num(1) + b"\x21\x21" + num(1) + bytes([18])) * n
    h += b"\x0c" + b"".join(num(len(d)) for _, d in files) + b"\x00"
    h += b"\x08\x0a\x01" + b"".join(struct.pack("<I", zlib.crc32(d)) for _, d in files) + b"\x00\x00"
    names = b"\x00" + b"".join(nm.encode("utf-16-le") + b"\x00\x00" for nm, _ in files)
    h += b"\x05" + num(n) + b"\x11" + num(len(names)) + names + b"\x00\x00"
    body = b"".join(packed)
    start = struct.pack("<QQI", len(body), len(h), zlib.crc32(bytes(h)))
    return b"7z\xbc\xaf\x27\x1c\x00\x04" + struct.pack("<I", zlib.crc32(start)) + start + body + bytes(h)


written = []


def hook(event, args):
    if event == "open" and isinstance(args[0], str) and args[1] and "w" in str(args[1]):
        written.append(args[0])


def main() -> int:
    limit = archive_extractor._config.max_memory_size
    big_size = 24 * 1024 * 1024
    big = (b"2026-10-04 12:00:00 INFO nothing happened\n" * (big_size // 42 + 1))[:big_size]
    blob = build_7z([("server-log.txt", big), ("notes.txt", b"short note")])
    print("archive: %d bytes; members: server-log.txt %d bytes (per-member limit %d), notes.txt 10 bytes" % (len(blob), big_size, limit))
    del big

    sys.addaudithook(hook)
    tracemalloc.start()
    gen = read_archive(io.BytesIO(blob), path="logs.7z")
    first = next(gen)  # generator is suspended: its temp directory still exists
    _, peak = tracemalloc.get_traced_memory()
    tracemalloc.stop()

    on_disk = [(p, os.path.getsize(p)) for p in written if os.path.exists(p)]
    print("first result:", first.get_metadata().filename)
    print("files written while producing it:", [(os.path.basename(p), s) for p, s in on_disk])
    print("peak traced memory during extraction: %.1f MB" % (peak / 1e6))
    rest = [r.get_metadata().filename for r in gen]
    print("further results:", rest)

    oversize_on_disk = any(os.path.basename(p) == "server-log.txt" and s > limit for p, s in on_disk)
    oversize_in_memory = peak > big_size
    if oversize_on_disk:
        print("VIOLATION: the %d-byte member above the %d-byte limit was written to disk" % (big_size, limit))
    if oversize_in_memory:
        print("VIOLATION: the oversize member was decompressed into memory (peak > its size)")
    print("property demands: the oversize member is skipped without being decompressed into memory or onto disk")
    return 1 if (oversize_on_disk or oversize_in_memory) else 0


if __name__ == "__main__":
    sys.exit(main())
