"""C02 - HTML: inside table cells and headings the text of child elements is
concatenated without regard to <br> or block boundaries, so lines / paragraphs
of a cell (and of an <h1>) are glued together; the same text outside a table is
separated correctly."""
import io
import os
import sys

sys.path.insert(0, os.getcwd())

from sharepoint2text.parsing.extractors.html_extractor import read_html

html = (
    "<html><body>"
    "<h1>Annual<br>Report</h1>"
    "<table>"
    "<tr><th>Customer</th><th>Address</th></tr>"
    "<tr><td>ACME</td><td>Mainstreet<br>Springfield</td></tr>"
    "<tr><td><p>Globex</p><p>Corporation</p></td><td><div>Hillroad</div><div>Cypress</div></td></tr>"
    "</table>"
    "<p>Outside<br>Table</p>"
    "</body></html>"
)
result = next(iter(read_html(io.BytesIO(html.encode("utf-8")), None)))
full = result.get_full_text()
tables = [t.get_table() for t in result.iterate_tables()]
print("observed full text:")
print(full)
print("observed table    :", tables)

words = full.replace("|", " ").split()
wanted = ["Annual", "Report", "Mainstreet", "Springfield", "Globex", "Corporation", "Hillroad", "Cypress", "Outside", "Table"]
missing = [w for w in wanted if w not in words]
print("expected          : each of", wanted, "is a word of its own (a <br>, <p> or <div> boundary is whitespace)")
print("glued together    :", missing)
sys.exit(1 if missing else 0)
