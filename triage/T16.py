"""C02 ODG: comments (office:annotation) on the page or inside a paragraph vs full text."""
import io, sys
sys.path.insert(0, "/verif/triage"); sys.path.insert(0, "/repo")
from odf import build_odf
from sharepoint2text.parsing.extractors.open_office.odg_extractor import read_odg
DC = 'xmlns:dc="http://purl.org/dc/elements/1.1/"'
ann = '<office:annotation %s><dc:creator>Bob</dc:creator><text:p>SECRET_COMMENT</text:p></office:annotation>' % DC
body = ('<office:drawing><draw:page draw:name="p1">' + ann +
        '<draw:custom-shape><text:p>SHAPE' + ann.replace("SECRET", "INLINE") + ' TEXT</text:p></draw:custom-shape>'
        '</draw:page></office:drawing>')
r = next(iter(read_odg(io.BytesIO(build_odf("application/vnd.oasis.opendocument.graphics", body)), "x.odg")))
print("odg full text:", repr(r.get_full_text()))
