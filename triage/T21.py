"""T21 (C08): an EPUB that is not encrypted is rejected as encrypted.

EPUB OCF 3.x §4 (font obfuscation): a book that embeds obfuscated fonts lists them in META-INF/encryption.xml as
EncryptedData with EncryptionMethod/@Algorithm = http://www.idpf.org/2008/embedding (Adobe: http://ns.adobe.com/pdf/enc#RC).
The content documents of such a book are plain XHTML and every reading system opens it without a key; InDesign and
Sigil write this layout whenever fonts are embedded. `_is_epub_encrypted` answers True for any EncryptedData entry.

Run from a checkout: `python triage/T21.py` (cwd = repo) — exit 1 when the unencrypted book is rejected.
"""
import io
import os
import sys
import zipfile

sys.path.insert(0, os.getcwd())

from sharepoint2text.parsing.exceptions import ExtractionFileEncryptedError  # noqa: E402
from sharepoint2text.parsing.extractors.epub_extractor import read_epub  # noqa: E402

AES = "http://www.w3.org/2001/04/xmlenc#aes256-cbc"
FONT = "http://www.idpf.org/2008/embedding"
ADOBE = "http://ns.adobe.com/pdf/enc#RC"


def entry(algorithm, uri):
    return ('<enc:EncryptedData xmlns:enc="http://www.w3.org/2001/04/xmlenc#">'
            f'<enc:EncryptionMethod Algorithm="{algorithm}"/>'
            f'<enc:CipherData><enc:CipherReference URI="{uri}"/></enc:CipherData></enc:EncryptedData>')


def book(entries):
    buf = io.BytesIO()
    with zipfile.ZipFile(buf, "w") as z:
        z.writestr("mimetype", "application/epub+zip")
        z.writestr("META-INF/container.xml", '<?xml version="1.0"?><container version="1.0" xmlns="urn:oasis:names:tc:opendocument:xmlns:container"><rootfiles><rootfile full-path="OEBPS/content.opf" media-type="application/oebps-package+xml"/></rootfiles></container>')
        z.writestr("OEBPS/content.opf", '<?xml version="1.0"?><package xmlns="http://www.idpf.org/2007/opf" version="3.0" unique-identifier="id"><metadata xmlns:dc="http://purl.org/dc/elements/1.1/"><dc:title>Free book</dc:title><dc:identifier id="id">urn:uuid:1</dc:identifier></metadata>'
                   '<manifest><item id="c1" href="c1.xhtml" media-type="application/xhtml+xml"/><item id="f1" href="fonts/body.otf" media-type="application/vnd.ms-opentype"/></manifest><spine><itemref idref="c1"/></spine></package>')
        z.writestr("OEBPS/c1.xhtml", '<html xmlns="http://www.w3.org/1999/xhtml"><head><title>One</title></head><body><h1>One</h1><p>Readable text.</p></body></html>')
        z.writestr("OEBPS/fonts/body.otf", bytes(range(256)))
        if entries is not None:
            z.writestr("META-INF/encryption.xml", '<?xml version="1.0"?><encryption xmlns="urn:oasis:names:tc:opendocument:xmlns:container">' + "".join(entry(a, u) for a, u in entries) + "</encryption>")
    return buf.getvalue()


CASES = [
    ("no encryption.xml", None, False),
    ("IDPF-obfuscated font only", [(FONT, "OEBPS/fonts/body.otf")], False),
    ("Adobe-obfuscated font only", [(ADOBE, "OEBPS/fonts/body.otf")], False),
    ("AES chapter", [(AES, "OEBPS/c1.xhtml")], True),
    ("obfuscated font + AES chapter", [(FONT, "OEBPS/fonts/body.otf"), (AES, "OEBPS/c1.xhtml")], True),
    ("AES chapter + obfuscated font", [(AES, "OEBPS/c1.xhtml"), (FONT, "OEBPS/fonts/body.otf")], True),
]
bad = 0
for name, entries, must_reject in CASES:
    try:
        res = list(read_epub(io.BytesIO(book(entries)), "b.epub"))
        got = False
        text = res[0].get_full_text()
    except ExtractionFileEncryptedError:
        got, text = True, ""
    ok = got == must_reject and (must_reject or "Readable text." in text)
    bad += 0 if ok else 1
    print(("ok  " if ok else "BAD ") + f"{name}: rejected as encrypted = {got} (expected {must_reject})")
sys.exit(1 if bad else 0)
