"""C02 -- PPTX: mc:AlternateContent holds the same content twice (mc:Choice for applications that know the extension, mc:Fallback
for the others).  The slide reader collected shapes with sp_tree.iter(), which descends into both: the text appeared twice
(PowerPoint writes this for equations, ink and newer chart types).  Run from the repository root; exits 1 on duplicated text."""
import io
import os
import sys
import zipfile

sys.path.insert(0, os.getcwd())
import logging

logging.disable(logging.CRITICAL)
from sharepoint2text.parsing.extractors.ms_modern.pptx_extractor import read_pptx

P = "http://schemas.openxmlformats.org/presentationml/2006/main"
A = "http://schemas.openxmlformats.org/drawingml/2006/main"
R = "http://schemas.openxmlformats.org/officeDocument/2006/relationships"
MC = "http://schemas.openxmlformats.org/markup-compatibility/2006"


def sp(text, id_):
    return (f'<p:sp><p:nvSpPr><p:cNvPr id="{id_}" name="T{id_}"/><p:cNvSpPr/><p:nvPr/></p:nvSpPr><p:spPr/>'
            f'<p:txBody><a:bodyPr/><a:p><a:r><a:t>{text}</a:t></a:r></a:p></p:txBody></p:sp>')


def build(tree):
    b = io.BytesIO()
    with zipfile.ZipFile(b, "w") as z:
        z.writestr("[Content_Types].xml", '<?xml version="1.0"?><Types xmlns="http://schemas.openxmlformats.org/package/2006/content-types"><Default Extension="rels" ContentType="application/vnd.openxmlformats-package.relationships+xml"/><Default Extension="xml" ContentType="application/xml"/><Override PartName="/ppt/presentation.xml" ContentType="application/vnd.openxmlformats-officedocument.presentationml.presentation.main+xml"/><Override PartName="/ppt/slides/slide1.xml" ContentType="application/vnd.openxmlformats-officedocument.presentationml.slide+xml"/></Types>')
        z.writestr("_rels/.rels", f'<?xml version="1.0"?><Relationships xmlns="http://schemas.openxmlformats.org/package/2006/relationships"><Relationship Id="rId1" Type="{R}/officeDocument" Target="ppt/presentation.xml"/></Relationships>')
        z.writestr("ppt/presentation.xml", f'<?xml version="1.0"?><p:presentation xmlns:p="{P}" xmlns:r="{R}"><p:sldIdLst><p:sldId id="256" r:id="rId1"/></p:sldIdLst></p:presentation>')
        z.writestr("ppt/_rels/presentation.xml.rels", f'<?xml version="1.0"?><Relationships xmlns="http://schemas.openxmlformats.org/package/2006/relationships"><Relationship Id="rId1" Type="{R}/slide" Target="slides/slide1.xml"/></Relationships>')
        z.writestr("ppt/slides/slide1.xml", f'<?xml version="1.0"?><p:sld xmlns:p="{P}" xmlns:a="{A}" xmlns:r="{R}" xmlns:mc="{MC}"><p:cSld><p:spTree><p:nvGrpSpPr><p:cNvPr id="1" name=""/><p:cNvGrpSpPr/><p:nvPr/></p:nvGrpSpPr><p:grpSpPr/>{tree}</p:spTree></p:cSld></p:sld>')
    b.seek(0)
    return b


tree = sp("Quarterly result", 2) + f'<mc:AlternateContent><mc:Choice Requires="a14">{sp("Growth formula", 3)}</mc:Choice><mc:Fallback>{sp("Growth formula", 4)}</mc:Fallback></mc:AlternateContent>'
text = next(iter(read_pptx(build(tree), "a.pptx"))).get_full_text()
print("text:", repr(text))
print("expected: 'Quarterly result' and 'Growth formula' once each")
# a Choice without shapes (ink, media): the Fallback rendering is what there is
tree2 = f'<mc:AlternateContent><mc:Choice Requires="p14"><p:contentPart xmlns:p14="x"/></mc:Choice><mc:Fallback>{sp("Rendered ink note", 5)}</mc:Fallback></mc:AlternateContent>'
text2 = next(iter(read_pptx(build(tree2), "b.pptx"))).get_full_text()
print("choice without shapes:", repr(text2))
sys.exit(1 if text.count("Growth formula") != 1 or "Rendered ink note" not in text2 else 0)
