"""T01: 7z path confinement on re-read of extracted members."""
import io, os, sys, logging
sys.path.insert(0, os.path.dirname(os.path.abspath(__file__)))
import sz
from sharepoint2text.parsing.extractors.archive_extractor import read_archive
from sharepoint2text.parsing.extractors.util.sevenzip import _safe_join, Bad7zFile

logging.disable(logging.CRITICAL)
here = os.path.dirname(os.path.abspath(__file__))
secret_path = os.path.join(here, "host_secret.txt")
SECRET = "TOP-SECRET-HOST-CONTENT-12345"
with open(secret_path, "w") as fh:
    fh.write(SECRET)

# what does _safe_join do with the absolute name? (it would reject it - if it were ever called)
try:
    _safe_join("/tmp/x", secret_path)
    sj = "accepted"
except Bad7zFile as e:
    sj = "rejected"

# One folder with ONE stream (a.txt). The file list has a second non-empty-stream
# entry with an absolute name; there is no folder left for it, so extractall never
# writes it (and never calls _safe_join for it), but it stays in szf.list() as a
# regular (non-directory) file of size 0.
folder, blob = sz.copy_folder(b"harmless\n")
data = sz.build_7z([folder], [dict(name="a.txt"), dict(name=secret_path)], [blob])

msg = None
try:
    results = list(read_archive(io.BytesIO(data), path="evil.7z"))
    leaked = [r for r in results if SECRET in r.get_full_text()]
    if leaked:
        msg = ("REPRODUCED: read_archive returned %d results; one has file_path=%r and text %r "
               "(host file outside temp dir; _safe_join alone %s the name but is never called for it)"
               % (len(results), leaked[0].get_metadata().file_path, leaked[0].get_full_text(), sj))
    else:
        msg = "NOT-REPRODUCED: results=%r, none contains the host file content" % (
            [(r.get_metadata().file_path, r.get_full_text()[:30]) for r in results],)
except Exception as e:
    msg = "NOT-REPRODUCED: read_archive raised %s: %s" % (type(e).__name__, e)
finally:
    os.remove(secret_path)
print(msg)
