r"""C02 -- RTF: a destination nested inside a skipped destination ended the skipping of the outer group.

Word writes every picture as {\pict{\*\picprop ...{\sp{\sn ..}{\sv ..}}}\pngblip <hex data>}: when the nested {\*\picprop}
group closed, the reader forgot that it was inside {\pict}, and the hexadecimal image data became body text.
Run from the repository root; exits 1 when hex data of the picture shows up in the text."""
import io
import os
import sys

sys.path.insert(0, os.getcwd())
import logging

logging.disable(logging.CRITICAL)
from sharepoint2text.parsing.extractors.ms_legacy.rtf_extractor import read_rtf

B = "\\"
png = "89504e470d0a1a0a0000000d4948445200000001000000010802000000907753de"
src = ("{" + B + "rtf1" + B + "ansi Before {" + B + "pict{" + B + "*" + B + "picprop" + B + "shplid1025{" + B + "sp{" + B + "sn shapeType}{" + B + "sv 75}}}"
       + B + "picw10" + B + B[:0] + B + "pich20" + B + "pngblip\n" + png[:40] + "\n" + png[40:] + "} after.}")
r = next(iter(read_rtf(io.BytesIO(src.encode("ascii")), "a.rtf")))
text = r.get_full_text()
print("text  :", repr(text))
print("images:", [(i.image_type, len(i.data or b"")) for i in r.images])
leak = png[:20] in text.replace("\n", "")
print("expected: 'Before after.' -- the picture data is not text")
sys.exit(1 if leak or "Before" not in text or "after." not in text else 0)
