"""T35 (C09): nested archives whose suffix the router only knows through the MIME database are unpacked.

`_should_skip_file` compares the member name with NESTED_ARCHIVE_EXTENSIONS; `.taz` / `.tz` (tar.gz by mimetypes) are not listed but
`is_supported_file` accepts them through the MIME fallback (application/x-tar), so the member is handed to read_archive again and the
inner files are returned as o.zip!/inner.taz!/secret.txt.  Run with cwd = a checkout; exit 1 when inner members appear.
"""
import io
import logging
import os
import sys
import tarfile
import zipfile

sys.path.insert(0, os.getcwd())
logging.disable(logging.CRITICAL)
from sharepoint2text.parsing.extractors.archive_extractor import read_archive  # noqa: E402

t = io.BytesIO()
with tarfile.open(fileobj=t, mode="w:gz") as tf:
    d = b"inner secret"
    ti = tarfile.TarInfo("secret.txt")
    ti.size = len(d)
    tf.addfile(ti, io.BytesIO(d))
z = io.BytesIO()
with zipfile.ZipFile(z, "w") as zf:
    zf.writestr("a.txt", "alpha")
    for n in ("inner.taz", "x.tz", "y.tgz", "old/backup.TAZ"):
        zf.writestr(n, t.getvalue())
got = [r.metadata.file_path for r in read_archive(io.BytesIO(z.getvalue()), "o.zip")]
print(got)
sys.exit(0 if got == ["o.zip!/a.txt"] else 1)
