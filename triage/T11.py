"""T11: EPUB image numbering when an earlier image cannot be read."""
import io, struct, zlib, zipfile, logging
from sharepoint2text.parsing.extractors.epub_extractor import read_epub
logging.disable(logging.CRITICAL)


def png(color):
    def chunk(t, d):
        return struct.pack(">I", len(d)) + t + d + struct.pack(">I", zlib.crc32(t + d) & 0xFFFFFFFF)
    return b"\x89PNG\r\n\x1a\n" + chunk(b"IHDR", struct.pack(">IIBBBBB", 1, 1, 8, 2, 0, 0, 0)) + \
        chunk(b"IDAT", zlib.compress(b"\x00" + bytes(color))) + chunk(b"IEND", b"")


GOOD, BAD = png((255, 0, 0)), png((0, 255, 0))


def build(first_image_mode):
    """first_image_mode: 'missing' (manifest item + <img>, no zip member) or 'corrupt' (member with bad CRC)."""
    buf = io.BytesIO()
    with zipfile.ZipFile(buf, "w", zipfile.ZIP_STORED) as z:
        z.writestr("mimetype", "application/epub+zip")
        z.writestr("META-INF/container.xml", '<?xml version="1.0"?><container version="1.0" xmlns="urn:oasis:names:tc:opendocument:xmlns:container">'
                   '<rootfiles><rootfile full-path="OEBPS/content.opf" media-type="application/oebps-package+xml"/></rootfiles></container>')
        z.writestr("OEBPS/content.opf", '<?xml version="1.0"?><package xmlns="http://www.idpf.org/2007/opf" version="3.0" unique-identifier="id">'
                   '<metadata xmlns:dc="http://purl.org/dc/elements/1.1/"><dc:title>T</dc:title><dc:identifier id="id">x</dc:identifier><dc:language>en</dc:language></metadata>'
                   '<manifest><item id="c1" href="ch1.xhtml" media-type="application/xhtml+xml"/>'
                   '<item id="i1" href="img/first.png" media-type="image/png"/><item id="i2" href="img/second.png" media-type="image/png"/></manifest>'
                   '<spine><itemref idref="c1"/></spine></package>')
        z.writestr("OEBPS/ch1.xhtml", '<?xml version="1.0"?><html xmlns="http://www.w3.org/1999/xhtml"><head><title>c</title></head><body><h1>Chapter</h1>'
                   '<p>text</p><img src="img/first.png" alt="first"/><img src="img/second.png" alt="second"/></body></html>')
        if first_image_mode == "corrupt":
            z.writestr("OEBPS/img/first.png", BAD)
        z.writestr("OEBPS/img/second.png", GOOD)
    data = buf.getvalue()
    if first_image_mode == "corrupt":
        b = bytearray(data); i = data.index(BAD); b[i + len(BAD) - 20] ^= 0xFF; data = bytes(b)
    return data


res = {}
for mode in ("missing", "corrupt"):
    try:
        r = next(read_epub(io.BytesIO(build(mode)), path="t.epub"))
        res[mode] = [(im.get_metadata().image_number, im.href) for im in r.iterate_images()]
    except Exception as e:
        res[mode] = "raised %s: %s" % (type(e).__name__, e)
if res["corrupt"] == [(2, "OEBPS/img/second.png")] or res["missing"] == [(2, "OEBPS/img/second.png")]:
    print("REPRODUCED: first image unreadable (zip member with bad CRC) -> images=%r (numbering starts at 2, no image 1); with the first image merely MISSING from the zip -> images=%r (the exists() check runs before the counter, so that variant is fine)"
          % (res["corrupt"], res["missing"]))
else:
    print("NOT-REPRODUCED: %r" % res)
