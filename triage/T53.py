"""C02 -- DOCX: the text of a VML text box (w:pict/v:shape/v:textbox/w:txbxContent directly in a run, as written by Word in
compatibility mode and by many converters) was in no text.  Run from the repository root; exits 1 when it is missing."""
import io
import os
import sys
import zipfile

sys.path.insert(0, os.getcwd())
import logging

logging.disable(logging.CRITICAL)
from sharepoint2text.parsing.extractors.ms_modern.docx_extractor import read_docx

W = "http://schemas.openxmlformats.org/wordprocessingml/2006/main"
body = ('<w:p><w:r><w:pict><v:shape xmlns:v="urn:schemas-microsoft-com:vml"><v:textbox><w:txbxContent><w:p><w:r><w:t>Inside the text box</w:t></w:r></w:p>'
        '</w:txbxContent></v:textbox></v:shape></w:pict></w:r></w:p><w:p><w:r><w:t>Body</w:t></w:r></w:p>')
b = io.BytesIO()
with zipfile.ZipFile(b, "w") as z:
    z.writestr("[Content_Types].xml", '<?xml version="1.0"?><Types xmlns="http://schemas.openxmlformats.org/package/2006/content-types"><Default Extension="rels" ContentType="application/vnd.openxmlformats-package.relationships+xml"/><Default Extension="xml" ContentType="application/xml"/><Override PartName="/word/document.xml" ContentType="application/vnd.openxmlformats-officedocument.wordprocessingml.document.main+xml"/></Types>')
    z.writestr("_rels/.rels", '<?xml version="1.0"?><Relationships xmlns="http://schemas.openxmlformats.org/package/2006/relationships"><Relationship Id="rId1" Type="http://schemas.openxmlformats.org/officeDocument/2006/relationships/officeDocument" Target="word/document.xml"/></Relationships>')
    z.writestr("word/document.xml", f'<?xml version="1.0"?><w:document xmlns:w="{W}"><w:body>{body}</w:body></w:document>')
b.seek(0)
text = next(iter(read_docx(b, "a.docx"))).get_full_text()
print("text:", repr(text))
print("expected: 'Inside the text box' and 'Body'")
sys.exit(0 if "Inside the text box" in text and "Body" in text else 1)
