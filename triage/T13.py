"""C02/C13 DOCX walkers: content controls, nested tables, text boxes in cells."""
import io, sys
sys.path.insert(0, "/verif/triage"); sys.path.insert(0, "/repo")
from docxmk import *
from sharepoint2text.parsing.extractors.ms_modern.docx_extractor import read_docx
def run(body):
    return next(iter(read_docx(io.BytesIO(build(body)), "x.docx")))
r = run(p("BEFORE") + sdt(p("IN_SDT")) + p("AFTER"))
print("block sdt      :", repr(r.get_full_text()))
r = run(tbl(tr(tc(p("A") + tbl(tr(tc(p("INNER"))))), tc(p("B")))))
print("nested table   :", repr(r.get_full_text()), [t for t in r.tables])
r = run(tbl(tr(tc(textbox("BOXED")), tc(p("B")))))
print("textbox in cell:", repr(r.get_full_text()))
r = run(textbox("BOXED_BODY"))
print("textbox in body:", repr(r.get_full_text()))
r = run(tbl(tr(tc(p("R1"))), sdt(tr(tc(p("R2_IN_SDT")))), tr(tc(p("R3")), sdt(tc(p("C_IN_SDT"))))))
print("sdt row/cell   :", repr(r.get_full_text()), [t for t in r.tables])
