"""T04: LZMA2 folder inflates without any output limit regardless of declared unpack size."""
import io, os, sys, logging, lzma, tracemalloc
sys.path.insert(0, os.path.dirname(os.path.abspath(__file__)))
import sz
from sharepoint2text.parsing.extractors import archive_extractor as ae
from sharepoint2text.parsing.extractors.util import sevenzip
logging.disable(logging.CRITICAL)

REAL = 50 * 1024 * 1024
DECL = 10
filters = [{"id": lzma.FILTER_LZMA2, "dict_size": 1 << 20}]
c = lzma.LZMACompressor(format=lzma.FORMAT_RAW, filters=filters)
raw = c.compress(b"hello 7z!\n" + b"\x00" * (REAL - 10)) + c.flush()
# props byte for dict 1 MiB: (2|(p&1)) << (p//2+11) == 1<<20 -> p = 18
folder = dict(coder=b"\x21", props=bytes([18]), unpack_size=DECL, sub_sizes=[DECL])
data = sz.build_7z([folder], [dict(name="a.txt")], [raw])

produced = []
orig = sevenzip.SevenZipReader._decompress_lzma2
def wrap(self, d, p, *a):
    out = orig(self, d, p, *a)
    produced.append(len(out))
    return out
sevenzip.SevenZipReader._decompress_lzma2 = wrap
tracemalloc.start()
try:
    res = [(r.get_metadata().file_path, r.get_full_text()) for r in ae.read_archive(io.BytesIO(data), path="bomb.7z")]
    err = None
except Exception as e:
    res, err = None, "%s: %s" % (type(e).__name__, e)
finally:
    sevenzip.SevenZipReader._decompress_lzma2 = orig
_cur, peak = tracemalloc.get_traced_memory()
tracemalloc.stop()
if produced and max(produced) >= REAL:
    print("REPRODUCED: %d-byte 7z declaring unpack size %d made _decompress_lzma2 return %d bytes (tracemalloc peak %.1f MiB); results=%r err=%r"
          % (len(data), DECL, max(produced), peak / 2**20, res, err))
else:
    print("NOT-REPRODUCED: produced=%r peak=%d err=%r res=%r" % (produced, peak, err, res))
