"""T56 — EPUB table cells with inline markup (C13).

html.parser delivers character data in pieces, split at every inline tag and entity. _XhtmlTextExtractor joined the pieces of a cell
with a blank: <td>Net<b>work</b>ing</td> came back as 'Net work ing', H<sub>2</sub>O as 'H 2 O' (the chapter text, which concatenates
the pieces, was right). Block boundaries and <br> inside a cell went to the chapter text instead of the cell.

exit 0 = cells hold the source text, 1 = defect present.  Run: cd <tree> && /venv/bin/python /verif/triage/T56.py
"""
import os
import sys

sys.path.insert(0, os.getcwd())
from sharepoint2text.parsing.extractors.epub_extractor import _XhtmlTextExtractor  # noqa: E402

p = _XhtmlTextExtractor()
p.feed("<table><tr><td>Net<b>work</b>ing</td><td>H<sub>2</sub>O &amp; x</td></tr><tr><td>multi<p>para</p>li<br/>ne</td><td> a  b </td></tr></table>")
got = p.get_tables()
print(got)
ok = got == [[["Networking", "H2O & x"], ["multi para li ne", "a b"]]]
print("ok" if ok else "BAD")
sys.exit(0 if ok else 1)
