"""T08: patch_pypdf_fallback_aes() permanently rebinds pypdf functions after one AES PDF."""
import io, os, subprocess, sys, logging
logging.disable(logging.CRITICAL)

# Build the AES-encrypted PDFs in a *subprocess* (pypdf's fallback provider cannot AES-encrypt
# unless patched; doing it out of process keeps this process' pypdf pristine).
BUILDER = r'''
import io, sys
from pypdf import PdfWriter
from pypdf.generic import DictionaryObject, NameObject, DecodedStreamObject
from sharepoint2text.parsing.extractors.pdf._pypdf_aes_fallback import patch_pypdf_fallback_aes
assert patch_pypdf_fallback_aes()
w = PdfWriter()
page = w.add_blank_page(width=300, height=200)
font = DictionaryObject({NameObject("/Type"): NameObject("/Font"), NameObject("/Subtype"): NameObject("/Type1"), NameObject("/BaseFont"): NameObject("/Helvetica")})
page[NameObject("/Resources")] = DictionaryObject({NameObject("/Font"): DictionaryObject({NameObject("/F1"): w._add_object(font)})})
s = DecodedStreamObject(); s.set_data(b"BT /F1 18 Tf 40 100 Td (Hello AES world) Tj ET")
page[NameObject("/Contents")] = w._add_object(s)
w.encrypt("", algorithm=sys.argv[1])
buf = io.BytesIO(); w.write(buf)
sys.stdout.buffer.write(buf.getvalue())
'''
root = os.path.join(os.path.dirname(os.path.abspath(__file__)), "..")

import pypdf._crypt_providers as providers
import pypdf._crypt_providers._fallback as fb
import pypdf._encryption as enc
from sharepoint2text.parsing.extractors.pdf.pdf_extractor import read_pdf

def snap():
    return {
        "fb.aes_cbc_decrypt": fb.aes_cbc_decrypt, "fb.aes_ecb_encrypt": fb.aes_ecb_encrypt,
        "fb.CryptAES.decrypt": fb.CryptAES.decrypt, "fb.CryptAES.__init__": fb.CryptAES.__init__,
        "providers.aes_cbc_decrypt": providers.aes_cbc_decrypt, "enc.aes_cbc_decrypt": enc.aes_cbc_decrypt,
    }

if providers.crypt_provider[0] != "local_crypt_fallback":
    print("NOT-REPRODUCED: a real crypto provider (%s) is installed; the fallback patch is never applied" % (providers.crypt_provider,))
    sys.exit(0)

before = snap()
notes = []
pdfs = {}
for algo in ("AES-128", "AES-256"):
    pdf = subprocess.run([sys.executable, "-c", BUILDER, algo], cwd=root, capture_output=True, check=True).stdout
    pdfs[algo] = pdf
    try:
        res = next(read_pdf(io.BytesIO(pdf), path="aes.pdf"))
        notes.append("%s: extracted text %r" % (algo, res.get_full_text().strip()[:40]))
    except Exception as e:
        notes.append("%s: read_pdf raised %s: %s (cause: %s)" % (algo, type(e).__name__, str(e)[:80], str(getattr(e, "__cause__", None))[:90]))
    after = snap()
    changed = [k for k in before if before[k] is not after[k]]
    notes.append("%s: rebound after extraction finished: %s" % (algo, changed or "none"))
    if changed:
        break
after = snap()
changed = [k for k in before if before[k] is not after[k]]
if changed and "AES-128" in pdfs:  # history dependence: the same AES-128 bytes that failed above now succeed
    try:
        notes.append("AES-128 re-read after patch: text %r" % next(read_pdf(io.BytesIO(pdfs["AES-128"]), path="aes.pdf")).get_full_text().strip()[:40])
    except Exception as e:
        notes.append("AES-128 re-read after patch: still raises %s" % type(e).__name__)
if changed:
    print("REPRODUCED: after read_pdf() of an empty-password AES PDF returned, %d pypdf attributes stay replaced process-wide (%s; e.g. fb.aes_cbc_decrypt is now %s.%s) | %s"
          % (len(changed), ", ".join(changed), after["fb.aes_cbc_decrypt"].__module__, after["fb.aes_cbc_decrypt"].__name__, " | ".join(notes)))
else:
    print("NOT-REPRODUCED: " + " | ".join(notes))
