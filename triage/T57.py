"""T57 — RTF tables: rows that do not restate the row definition are lost; tables separated by a short paragraph are merged (C13).
OPEN findings: the repairs are blocked by the pinned suite -- test_read_rtf_tables_2 asserts that the Word 97 fixture
02_dept_transport.rtf has 23 tables, a number that is the product of both defects (the fixture has 296 \\row and 66 \\trowd; the
extractor returns 23 tables with 1-3 rows each, 65 rows in all).

(a) _extract_tables pairs every \\trowd with the next \\row: a row whose cells follow the previous \\row directly (Word 97 restates
    \\trowd for the first rows of a table only; the RTF reader of Word accepts it everywhere) is in the text but in no table.
(b) two rows belong to different tables only if more than 100 characters of RTF with more than 20 characters of text lie between them:
    tables separated by a short paragraph ("Table 2", an empty paragraph, a page break) are returned as one table.

exit 0 = both fine, 1 = defect present.  Run: cd <tree> && /venv/bin/python /verif/triage/T57.py
"""
import io
import os
import sys

sys.path.insert(0, os.getcwd())
from sharepoint2text.parsing.extractors.ms_legacy.rtf_extractor import read_rtf  # noqa: E402

HEAD = r"{\rtf1\ansi\deff0{\fonttbl{\f0 Arial;}}"
a = HEAD + r"\trowd\cellx1000\cellx2000\intbl a\cell b\cell\row\intbl c\cell d\cell\row \pard after\par}"
b = HEAD + r"\trowd\cellx1000\intbl a\cell\row \pard Table 2\par \trowd\cellx1000\intbl b\cell\row \pard after\par}"
bad = 0
for name, doc, want in (("rows", a, [[["a", "b"], ["c", "d"]]]), ("break", b, [[["a"]], [["b"]]])):
    got = [t.get_table() for t in next(read_rtf(io.BytesIO(doc.encode()))).iterate_tables()]
    print(name, got, "ok" if got == want else "BAD (want %r)" % (want,))
    bad += got != want
sys.exit(1 if bad else 0)
