"""C16: the same message has its attachment through .eml and through .mbox."""
import io, sys
sys.path.insert(0, "/repo")
from email.message import EmailMessage
from sharepoint2text.parsing.extractors.mail.eml_email_extractor import read_eml_format_mail
from sharepoint2text.parsing.extractors.mail.mbox_email_extractor import read_mbox_format_mail
m = EmailMessage()
m["From"] = "Alice <alice@example.org>"; m["To"] = "Bob <bob@example.org>"; m["Subject"] = "report"
m["Date"] = "Mon, 01 Jan 2024 10:00:00 +0000"; m["Message-ID"] = "<1@example.org>"
m.set_content("see attachment")
m.add_attachment(b"col1,col2\n1,2\n", maintype="text", subtype="csv", filename="täble.csv")
m.add_attachment(bytes(range(256)), maintype="application", subtype="octet-stream", filename="blob.bin")
raw = m.as_bytes()
eml = next(iter(read_eml_format_mail(io.BytesIO(raw), "x.eml")))
mbox = next(iter(read_mbox_format_mail(io.BytesIO(b"From alice@example.org Mon Jan  1 10:00:00 2024\n" + raw + b"\n"), "x.mbox")))
for name, r in (("eml", eml), ("mbox", mbox)):
    print(name, [(a.filename, a.mime_type, len(a.data.getvalue()), a.is_supported_mime_type) for a in r.attachments],
          [x.get_full_text() for x in r.iterate_supported_attachments()])
