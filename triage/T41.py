"""T41 (C18): overlapping folder_paths return the files of the inner folder twice.

(derived from T32) (a) folder_paths written with a trailing or leading slash give parent paths like 'Reports//q1.pdf';
(b) date bounds ignore fractional seconds: a file modified at 10:00:00.900Z is excluded by modified_after=10:00:00.500Z.

(fake Graph transport taken from the seeded demo C18-11)

Original demo text: files listed below folder_paths carry their correct parent path.

A tiny Graph simulator (fake transport, no network) serves one document
library.  The reference is list_all_files() (full walk from the root); a
listing restricted to a folder must return exactly the files of the reference
that live below that folder, with the same full paths, and path patterns must
see those full paths.
"""
import io
import json
import os
import sys
from urllib.error import HTTPError
from urllib.parse import unquote, urlparse

sys.path.insert(0, os.getcwd())

from sharepoint2text.sharepoint_io import (  # noqa: E402
    EntraIDAppCredentials,
    SharePointRequestError,
    SharePointRestClient,
)
from sharepoint2text.sharepoint_io.client import FileFilter  # noqa: E402

GRAPH = "https://graph.microsoft.com/v1.0"

# id -> (name, parent id, is_folder)
ITEMS = {
    "F1": ("Reports", None, True),
    "F2": ("2024", "F1", True),
    "a": ("root.txt", None, False),
    "b": ("q1.pdf", "F1", False),
    "c": ("q2.pdf", "F2", False),
    "d": ("notes.docx", "F2", False),
    "F3": ("Archive", None, True),
    "F4": ("2024", "F3", True),
    "e": ("old.pdf", "F4", False),
}


def item_json(item_id):
    name, _parent, is_folder = ITEMS[item_id]
    data = {"id": item_id, "name": name, "webUrl": f"https://x/{item_id}"}
    if is_folder:
        data["folder"] = {"childCount": 1}
    else:
        data["file"] = {"mimeType": "application/octet-stream"}
        data["lastModifiedDateTime"] = "2024-05-01T10:00:00.900Z"
        data["createdDateTime"] = "2024-04-01T10:00:00Z"
    return data


def children(parent):
    return [item_json(i) for i, (_n, p, _f) in ITEMS.items() if p == parent]


def by_path(path):
    parent = None
    found = None
    for part in path.split("/"):
        found = next(
            (i for i, (n, p, _f) in ITEMS.items() if n == part and p == parent), None
        )
        if found is None:
            return None
        parent = found
    return found


class Resp:
    opened = []

    def __init__(self, payload, status=200):
        self._data = json.dumps(payload).encode()
        self.status = status
        self.closed = False
        Resp.opened.append(self)

    def read(self):
        return self._data

    def getcode(self):
        return self.status

    def close(self):
        self.closed = True


class Transport:
    def __init__(self, fail_at=None, status=429):
        self.count = 0
        self.fail_at = fail_at
        self.status = status
        self.urls = []

    def __call__(self, request, timeout=None):
        url = request.full_url
        index = self.count
        self.count += 1
        self.urls.append(url)
        if self.fail_at is not None and index == self.fail_at:
            raise HTTPError(url, self.status, "injected", {}, io.BytesIO(b'{"error":"x"}'))
        if "login.microsoftonline.com" in url:
            return Resp({"access_token": "tok"})
        path = unquote(urlparse(url).path)
        if path.endswith("/sites/contoso.sharepoint.com:/sites/demo"):
            return Resp({"id": "SITE"})
        prefix = "/v1.0/sites/SITE/drive/"
        assert path.startswith(prefix), path
        rest = path[len(prefix):]
        if rest == "root/children":
            return Resp({"value": children(None)})
        if rest.startswith("items/") and rest.endswith("/children"):
            return Resp({"value": children(rest.split("/")[1])})
        if rest.startswith("root:/"):
            item_id = by_path(rest[len("root:/"):])
            if item_id is None:
                raise HTTPError(url, 404, "not found", {}, io.BytesIO(b"{}"))
            return Resp(item_json(item_id))
        raise AssertionError(url)


def make_client(transport):
    creds = EntraIDAppCredentials(tenant_id="t", client_id="c", client_secret="s")
    return SharePointRestClient(
        "https://contoso.sharepoint.com/sites/demo", creds, request_func=transport
    )


def paths(files):
    return sorted(f.get_full_path() for f in files)




client = make_client(Transport())
everything = paths(client.list_all_files())
got = paths(client.list_files_filtered(FileFilter(folder_paths=["Reports", "Reports/2024"])))
want = sorted(p for p in everything if p.startswith("Reports/"))
print("got     ", got)
print("expected", want)
sys.exit(0 if got == want else 1)
