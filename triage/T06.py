"""T06: XLS header-keyed row dicts: (a) `_type` header collides with serializer marker, (b) duplicate headers lose a column."""
import io, json, os, struct, sys, logging
import olefile
from sharepoint2text.parsing.extractors.ms_legacy.xls_extractor import read_xls
from sharepoint2text.parsing.extractors.data_types import ExtractionInterface
logging.disable(logging.CRITICAL)

FIX = os.path.join(os.path.dirname(os.path.abspath(__file__)), "..", "sharepoint2text", "tests", "resources", "legacy_ms", "mwe.xls")
raw = open(FIX, "rb").read()
stream = olefile.OleFileIO(io.BytesIO(raw)).openstream("Workbook").read()
pos = raw.find(stream[:64])
assert raw[pos:pos + len(stream)] == stream  # Workbook stream is contiguous (4096 B, records end at 1357)


def rec(rid, body):
    return struct.pack("<HH", rid, len(body)) + body


def records(buf, off):
    while off < len(buf):
        rid, ln = struct.unpack_from("<HH", buf, off)
        yield off, rid, buf[off + 4: off + 4 + ln]
        off += 4 + ln
        if rid == 0x0A:
            return


def build(strings, row1_col0_sst=None):
    """Rebuild workbook stream with a new shared-string table; optionally turn cell (1,0) into a string cell."""
    g = list(records(stream, 0))
    sst_off = next(o for o, r, _ in g if r == 0xFC)
    bs_off = next(o for o, r, _ in g if r == 0x85)
    sheet_off = struct.unpack_from("<I", stream, bs_off + 4)[0]
    sst = struct.pack("<II", len(strings), len(strings)) + b"".join(
        struct.pack("<HB", len(s), 0) + s.encode("latin-1") for s in strings)
    glob = bytearray(stream[:sst_off] + rec(0xFC, sst) + rec(0x0A, b""))
    struct.pack_into("<I", glob, bs_off + 4, len(glob))  # BOUNDSHEET -> new BOF offset of the sheet
    sheet = b""
    for off, rid, body in records(stream, sheet_off):
        if rid == 0xBD and row1_col0_sst is not None:  # MULRK row1: [1, 2] -> LABELSST + RK
            row, c0 = struct.unpack_from("<HH", body, 0)
            xf0, rk0, xf1, rk1 = struct.unpack_from("<HIHI", body, 4)
            sheet += rec(0xFD, struct.pack("<HHHI", row, c0, xf0, row1_col0_sst))
            sheet += rec(0x27E, struct.pack("<HHHI", row, c0 + 1, xf1, rk1))
        else:
            sheet += rec(rid, body)
    new = bytes(glob) + sheet
    assert len(new) <= len(stream)
    new += b"\x00" * (len(stream) - len(new))
    return raw[:pos] + new + raw[pos + len(stream):]


def extract(data):
    return next(read_xls(io.BytesIO(data), path="mwe.xls"))


out = []
# sanity: untouched rebuild gives original data
assert extract(build(["colA", "colB"])).sheets[0].data == [{"colA": 1, "colB": 2}]

# (a) header `_type`, string cell below it naming a registered dataclass
for cls_name in ("XlsSheet", "DocxRun"):
    r = extract(build(["_type", "colB", cls_name], row1_col0_sst=2))
    before = r.sheets[0].data
    try:
        back = ExtractionInterface.from_json(json.loads(json.dumps(r.to_json())))
        after = back.sheets[0].data
        out.append("(a) %r -> after round-trip data=%r (%s)" % (before, after, "CHANGED" if after != before else "same"))
    except Exception as e:
        out.append("(a) %r -> from_json raised %s: %s" % (before, type(e).__name__, e))

# (b) same-length patch colB -> colA : duplicate header text
r = extract(raw.replace(b"\x04\x00\x00colB", b"\x04\x00\x00colA"))
d = r.sheets[0].data
out.append("(b) headers colA,colA with row [1,2] -> data=%r text=%r" % (d, r.sheets[0].text))
ok_a = any("raised" in o or "CHANGED" in o for o in out[:2])
ok_b = d == [{"colA": 2}]
print(("REPRODUCED: " if (ok_a and ok_b) else "REPRODUCED (partial a=%s b=%s): " % (ok_a, ok_b) if (ok_a or ok_b) else "NOT-REPRODUCED: ") + " | ".join(out))
