"""A01: ODS non-empty cell x number-columns-repeated x number-rows-repeated, no cap."""
import io, os, sys, logging, tracemalloc
sys.path.insert(0, os.path.dirname(os.path.abspath(__file__)))
import odf
from sharepoint2text.parsing.extractors.open_office.ods_extractor import read_ods

logging.disable(logging.CRITICAL)
COLS, ROWS = 1000, 3000
body = ('<office:spreadsheet><table:table table:name="S">'
        '<table:table-row table:number-rows-repeated="%d">'
        '<table:table-cell table:number-columns-repeated="%d" office:value-type="string">'
        '<text:p>x</text:p></table:table-cell></table:table-row>'
        '</table:table></office:spreadsheet>' % (ROWS, COLS))
data = odf.build_odf("application/vnd.oasis.opendocument.spreadsheet", body)

msg = None
try:
    tracemalloc.start()
    results = list(read_ods(io.BytesIO(data), path="a.ods"))
    cur, peak = tracemalloc.get_traced_memory()
    tracemalloc.stop()
    sheet = results[0].sheets[0]
    nrows = len(sheet.data)
    ncells = sum(len(r) for r in sheet.data)
    nonempty = sum(1 for r in sheet.data for v in r if v is not None)
    tlen = len(sheet.text)
    full = len(results[0].get_full_text())
    if ncells >= COLS * ROWS and nonempty == ncells:
        msg = ("REPRODUCED: %d -> %d rows x %d cols = %d non-empty cells in sheet.data, "
               "len(sheet.text)=%d, len(get_full_text())=%d, peak memory %.1f MB (x%d text amplification)"
               % (len(data), nrows, len(sheet.data[0]), ncells, tlen, full, peak / 1e6, tlen // len(data)))
    else:
        msg = "NOT-REPRODUCED: got %d rows / %d cells (%d non-empty), text %d" % (nrows, ncells, nonempty, tlen)
except Exception as e:
    msg = "NOT-REPRODUCED: read_ods raised %s: %s" % (type(e).__name__, e)
print(msg)
