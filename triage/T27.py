"""T27 (C06): XLSX whose docProps/core.xml has an EMPTY <dcterms:created/> element reports the current time as creation date.

openpyxl substitutes datetime.now() for a created / modified value it cannot read; read_xlsx only checked that the element
exists, so two extractions of the same bytes give different metadata (and a date that is not in the file).

Run with cwd = a checkout; exit 1 when two extractions one second apart differ.
"""
import io
import logging
import os
import sys
import time
import zipfile

sys.path.insert(0, os.getcwd())
logging.disable(logging.CRITICAL)
import openpyxl  # noqa: E402

from sharepoint2text.parsing.extractors.ms_modern.xlsx_extractor import read_xlsx  # noqa: E402

wb = openpyxl.Workbook()
wb.active["A1"] = "x"
buf = io.BytesIO()
wb.save(buf)
src = zipfile.ZipFile(io.BytesIO(buf.getvalue()))
out = io.BytesIO()
with zipfile.ZipFile(out, "w") as z:
    for n in src.namelist():
        data = src.read(n)
        if n == "docProps/core.xml":
            data = (b'<?xml version="1.0" encoding="UTF-8" standalone="yes"?><cp:coreProperties xmlns:cp="http://schemas.openxmlformats.org/package/2006/metadata/core-properties" '
                    b'xmlns:dc="http://purl.org/dc/elements/1.1/" xmlns:dcterms="http://purl.org/dc/terms/" xmlns:xsi="http://www.w3.org/2001/XMLSchema-instance">'
                    b'<dc:creator>me</dc:creator><dcterms:created xsi:type="dcterms:W3CDTF"></dcterms:created><dcterms:modified xsi:type="dcterms:W3CDTF"/></cp:coreProperties>')
        z.writestr(n, data)
data = out.getvalue()


def dates():
    r = list(read_xlsx(io.BytesIO(data), "a.xlsx"))[0]
    return r.metadata.created, r.metadata.modified


a = dates()
time.sleep(1.1)
b = dates()
print("first :", a)
print("second:", b)
sys.exit(1 if a != b or any(a) else 0)
