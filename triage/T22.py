"""T22 (C02): MHTML whose text/html part is sent 8bit or binary loses every non-ASCII character.

RFC 2557 web archives may carry the HTML part with Content-Transfer-Encoding 8bit/binary (raw UTF-8 or legacy-charset
bytes). email.message_from_bytes keeps such bytes as surrogate escapes in the str payload; `_decode_content` turned the
payload back into bytes with .encode("utf-8", errors="replace"), which replaces each escaped byte by '?' — the visible
text 'Größe über Maß' comes out as 'Gr??e ?ber Ma?' / U+FFFD runs. Quoted-printable and base64 parts are unaffected.

Run with cwd = a checkout; exit 1 when body text is lost.
"""
import io
import os
import quopri
import sys

sys.path.insert(0, os.getcwd())
from sharepoint2text.parsing.extractors.mhtml_extractor import read_mhtml  # noqa: E402

TEXT = "Größe über Maß — 東京"
bad = 0
for charset, meta in (("utf-8", '<meta charset="utf-8">'), ("windows-1252", '<meta http-equiv="Content-Type" content="text/html; charset=windows-1252">')):
    text = TEXT if charset == "utf-8" else "Größe über Maß"
    html = f"<html><head>{meta}<title>T</title></head><body><p>{text}</p></body></html>".encode(charset)
    for cte in ("8bit", "binary", "quoted-printable"):
        body = quopri.encodestring(html) if cte == "quoted-printable" else html
        m = (b'From: <Saved by Blink>\r\nSubject: T\r\nMIME-Version: 1.0\r\nContent-Type: multipart/related; type="text/html"; boundary="----B"\r\n\r\n'
             b"------B\r\nContent-Type: text/html\r\nContent-Transfer-Encoding: " + cte.encode() + b"\r\nContent-Location: http://x/\r\n\r\n" + body + b"\r\n------B--\r\n")
        got = list(read_mhtml(io.BytesIO(m), "a.mhtml"))[0].get_full_text()
        ok = text in got
        bad += 0 if ok else 1
        print(("ok  " if ok else "BAD ") + f"{charset:<13} {cte:<17} -> {got!r}")
sys.exit(1 if bad else 0)
