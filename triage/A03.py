"""A03: odt_extractor._extract_caption_from_paragraph expands <text:s text:c="N"/> uncapped.

Reached via read_odt -> _extract_images_from_context for
  draw:frame > draw:text-box > text:p > (draw:frame > draw:image) + caption text with text:s.
The final caption is whitespace-normalised (so it stays short), but the N-space string and
the "".join() copy are materialised first.  The function is wrapped (not modified) only to
measure the memory it allocates on its own, separately from the A02 route which the same
paragraph also takes through _extract_paragraphs/_extract_full_text.
"""
import io, os, sys, logging, tracemalloc
sys.path.insert(0, os.path.dirname(os.path.abspath(__file__)))
import odf
from sharepoint2text.parsing.extractors.open_office import odt_extractor as oe

logging.disable(logging.CRITICAL)
N = 50_000_000
body = ('<office:text><text:p><draw:frame draw:name="outer"><draw:text-box>'
        '<text:p><draw:frame draw:name="inner"><draw:image xlink:href="Pictures/i.png"/></draw:frame>'
        'Fig<text:s text:c="%d"/>one</text:p>'
        '</draw:text-box></draw:frame></text:p></office:text>' % N)
data = odf.build_odf("application/vnd.oasis.opendocument.text", body,
                     extra={"Pictures/i.png": b"\x89PNG\r\n\x1a\n"})

calls = []
orig = oe._extract_caption_from_paragraph


def measuring(para):
    tracemalloc.reset_peak()
    base, _ = tracemalloc.get_traced_memory()
    out = orig(para)
    _, peak = tracemalloc.get_traced_memory()
    calls.append((len(out), peak - base))
    return out


oe._extract_caption_from_paragraph = measuring
msg = None
try:
    tracemalloc.start()
    results = list(oe.read_odt(io.BytesIO(data), path="a.odt"))
    _, total_peak = tracemalloc.get_traced_memory()
    tracemalloc.stop()
    imgs = results[0].images
    if not calls:
        msg = "NOT-REPRODUCED: _extract_caption_from_paragraph was not reached (images=%d)" % len(imgs)
    else:
        cap_len, cap_peak = calls[0]
        cap = imgs[0].caption if imgs else None
        if cap_peak >= N:
            msg = ("REPRODUCED: %d -> _extract_caption_from_paragraph reached via read_odt (draw:text-box "
                   "caption paragraph); it allocated %.1f MB transiently for text:c=%d; final caption %r has "
                   "len %d because whitespace is collapsed afterwards (whole read_odt peak %.1f MB)"
                   % (len(data), cap_peak / 1e6, N, cap, cap_len, total_peak / 1e6))
        else:
            msg = "NOT-REPRODUCED: reached, but transient allocation only %.1f MB, caption len %d" % (
                cap_peak / 1e6, cap_len)
except Exception as e:
    msg = "NOT-REPRODUCED: read_odt raised %s: %s" % (type(e).__name__, e)
print(msg)
