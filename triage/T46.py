"""C04 -- EPUB: dc:creator, dc:subject and dc:contributor are repeatable (one element per author / subject); all of them are
document properties stored in the file.  Before the fix only the first of each was reported.
Run from the repository root; exits 1 when a stored value is missing from the metadata."""
import io
import os
import sys
import zipfile

sys.path.insert(0, os.getcwd())
import logging

logging.disable(logging.CRITICAL)
from sharepoint2text.parsing.extractors.epub_extractor import read_epub

OPF = """<?xml version="1.0"?><package xmlns="http://www.idpf.org/2007/opf" version="3.0" unique-identifier="id">
<metadata xmlns:dc="http://purl.org/dc/elements/1.1/"><dc:identifier id="id">urn:x</dc:identifier><dc:title>Handbook</dc:title><dc:language>en</dc:language>
<dc:creator>Ada Lovelace</dc:creator><dc:creator>Charles Babbage</dc:creator><dc:subject>Computing</dc:subject><dc:subject>History</dc:subject>
<dc:contributor>Luigi Menabrea</dc:contributor><dc:contributor>Mary Somerville</dc:contributor></metadata>
<manifest><item id="c1" href="c1.xhtml" media-type="application/xhtml+xml"/></manifest><spine><itemref idref="c1"/></spine></package>"""
buf = io.BytesIO()
with zipfile.ZipFile(buf, "w") as z:
    z.writestr("mimetype", "application/epub+zip")
    z.writestr("META-INF/container.xml", '<?xml version="1.0"?><container version="1.0" xmlns="urn:oasis:names:tc:opendocument:xmlns:container"><rootfiles><rootfile full-path="content.opf" media-type="application/oebps-package+xml"/></rootfiles></container>')
    z.writestr("content.opf", OPF)
    z.writestr("c1.xhtml", '<html xmlns="http://www.w3.org/1999/xhtml"><body><p>Text</p></body></html>')
buf.seek(0)
md = next(iter(read_epub(buf, "h.epub"))).get_metadata()
missing = []
for field, values in (("creator", ["Ada Lovelace", "Charles Babbage"]), ("subject", ["Computing", "History"]), ("contributor", ["Luigi Menabrea", "Mary Somerville"])):
    got = getattr(md, field)
    print(f"{field:12} stored {values} -> reported {got!r}")
    missing += [v for v in values if v not in (got or "")]
print("missing:", missing)
sys.exit(1 if missing else 0)
