"""T29 (C14): an RTF picture whose hex data is wrapped over several lines (what Word writes) is cut at the first line break.

{\\pict\\pngblip ... <hex, 64 characters per line>}: _RE_HEX_DATA matched one unbroken run of hex digits, so 32 of 208 bytes came
back.  Run with cwd = a checkout; exit 1 when the returned bytes differ from the embedded ones.
"""
import io
import logging
import os
import sys

sys.path.insert(0, os.getcwd())
logging.disable(logging.CRITICAL)
from sharepoint2text.parsing.extractors.ms_legacy.rtf_extractor import read_rtf  # noqa: E402

png = bytes.fromhex("89504e470d0a1a0a") + bytes(range(200))
hx = png.hex()
bad = 0
for name, sep in (("one line", ""), ("CRLF every 64 digits", "\r\n"), ("LF every 128 digits", "\n")):
    step = 128 if "128" in name else 64
    body = sep.join(hx[i:i + step] for i in range(0, len(hx), step)) if sep else hx
    rtf = ("{\\rtf1\\ansi text {\\pict\\pngblip\\picw10\\pich10 " + sep + body + "}\\par}").encode()
    r = list(read_rtf(io.BytesIO(rtf), "a.rtf"))[0]
    got = [i.get_bytes().getvalue() for i in r.iterate_images()]
    ok = got == [png]
    bad += 0 if ok else 1
    print(("ok  " if ok else "BAD ") + f"{name}: embedded {len(png)} bytes, returned {[len(g) for g in got]}")
sys.exit(1 if bad else 0)
