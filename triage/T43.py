"""T43 (C02): a commented-out <meta charset> re-decodes the whole HTML document.

read_html looks for `<meta ... charset=` in the first 8 KB of the raw bytes; a meta tag inside a comment (templates keep the old one
around) is found as well: '<!-- <meta charset="utf-16"> -->' turns an ASCII page into CJK garbage. MHTML goes through the same code.
Run with cwd = a checkout; exit 1 when the visible text is lost.
"""
import io
import logging
import os
import sys

sys.path.insert(0, os.getcwd())
logging.disable(logging.CRITICAL)
from sharepoint2text.parsing.extractors.html_extractor import read_html  # noqa: E402

h = b'<html><head><!-- <meta charset="utf-16"> --></head><body><p>Hello world</p></body></html>'
t = list(read_html(io.BytesIO(h), "a.html"))[0].get_full_text()
print(repr(t))
sys.exit(0 if t == "Hello world" else 1)
