"""T33 (C01): the CLI prints two lines on stderr for a file it cannot handle.

With no logging handler configured, Python's logging.lastResort writes every WARNING / ERROR record of the library to stderr. The
router logs 'Unsupported file type: ...' as a warning before it raises, so `sharepoint2text a.xyz` printed that line AND the
diagnostic line. (Any extractor warning on a failing path does the same.)  Run with cwd = a checkout; exit 1 when stderr has != 1 line.
"""
import os
import subprocess
import sys
import tempfile

d = tempfile.mkdtemp(prefix="t33_", dir="/tmp")
p = os.path.join(d, "a.xyz")
open(p, "w").write("hi")
r = subprocess.run([sys.executable, "-m", "sharepoint2text.cli", p], capture_output=True, text=True, cwd=os.getcwd())
lines = [l for l in r.stderr.splitlines() if l.strip()]
print("exit", r.returncode, "stdout", repr(r.stdout), "stderr lines", lines)
os.remove(p)
os.rmdir(d)
sys.exit(0 if (r.returncode == 1 and r.stdout == "" and len(lines) == 1) else 1)
