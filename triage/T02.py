"""T02: two non-solid Copy folders -> second file gets first folder's bytes."""
import io, os, sys, logging
sys.path.insert(0, os.path.dirname(os.path.abspath(__file__)))
import sz
from sharepoint2text.parsing.extractors.archive_extractor import read_archive
logging.disable(logging.CRITICAL)

A = b"AAAAAAAAAAAAAAAA\n"
B = b"BBBBBBBBBBBBBBBB\n"
fa, ba = sz.copy_folder(A)
fb, bb = sz.copy_folder(B)
data = sz.build_7z([fa, fb], [dict(name="a.txt"), dict(name="b.txt")], [ba, bb])
try:
    res = {r.get_metadata().file_path: r.get_full_text() for r in read_archive(io.BytesIO(data), path="two.7z")}
    b_text = res.get("two.7z!/b.txt")
    if b_text is not None and b_text.strip() == A.decode().strip():
        print("REPRODUCED: b.txt (stored as %r in its own folder/pack stream) is returned with text %r, i.e. the bytes of a.txt; results=%r"
              % (B, b_text, res))
    elif b_text is not None and b_text.strip() == B.decode().strip():
        print("NOT-REPRODUCED: b.txt correctly extracted: %r" % res)
    else:
        print("REPRODUCED: b.txt wrong/missing, results=%r" % res)
except Exception as e:
    print("REPRODUCED: two-folder archive failed with %s: %s" % (type(e).__name__, e))
