"""C02 ODP: a comment inside a text-box paragraph vs slide text."""
import io, sys
sys.path.insert(0, "/verif/triage"); sys.path.insert(0, "/repo")
from odf import build_odf
from sharepoint2text.parsing.extractors.open_office.odp_extractor import read_odp
DC = 'xmlns:dc="http://purl.org/dc/elements/1.1/"'
ann = '<office:annotation %s><dc:creator>Bob</dc:creator><text:p>SECRET_COMMENT</text:p></office:annotation>' % DC
body = ('<office:presentation><draw:page draw:name="p1"><draw:frame svg:x="1cm" svg:y="1cm"><draw:text-box><text:p>BODY' + ann +
        ' TEXT</text:p></draw:text-box></draw:frame></draw:page></office:presentation>')
r = next(iter(read_odp(io.BytesIO(build_odf("application/vnd.oasis.opendocument.presentation", body)), "x.odp")))
print("odp full text:", repr(r.get_full_text()), "annotations:", [a.text for a in r.slides[0].annotations])
