"""T24 (C10): a zero-length file inside a 7z yields no result, inside a ZIP or TAR it does.

7z stores entries without data as 'empty streams'; the kEmptyFile vector says which of them are zero-length *files* (the
others are directories). SevenZipReader skips kEmptyFile ("not needed for extraction") and treats every empty-stream entry
as a directory, so `empty.txt` (0 bytes) of a 7z is never handed to its extractor, while the same member of a ZIP / TAR —
and the file extracted on its own — gives one PlainTextContent with empty text. 7-Zip and py7zr write exactly this layout
for empty files.

Run with cwd = a checkout; exit 1 when the three containers disagree.
"""
import io
import os
import sys
import tarfile
import zipfile

sys.path.insert(0, os.getcwd())
sys.path.insert(0, os.path.dirname(os.path.abspath(__file__)))
import logging  # noqa: E402

logging.disable(logging.CRITICAL)
from sz import build_7z, copy_folder  # noqa: E402
from sharepoint2text.parsing.extractors.archive_extractor import read_archive  # noqa: E402

MEMBERS = [("a.txt", b"alpha"), ("empty.txt", b""), ("b.txt", b"beta")]

folder, blob = copy_folder(b"alpha", b"beta")
sevenz = build_7z([folder], [dict(name="a.txt"), dict(name="empty.txt", empty=True, empty_file=True), dict(name="b.txt")], [blob])
zbuf = io.BytesIO()
with zipfile.ZipFile(zbuf, "w") as z:
    for n, d in MEMBERS:
        z.writestr(n, d)
tbuf = io.BytesIO()
with tarfile.open(fileobj=tbuf, mode="w") as t:
    for n, d in MEMBERS:
        ti = tarfile.TarInfo(n)
        ti.size = len(d)
        t.addfile(ti, io.BytesIO(d))

out = {}
for kind, data in (("zip", zbuf.getvalue()), ("tar", tbuf.getvalue()), ("7z", sevenz)):
    res = list(read_archive(io.BytesIO(data), f"x.{kind}"))
    out[kind] = [(r.metadata.filename, r.get_full_text()) for r in res]
    print(kind, out[kind])
want = [(n, d.decode()) for n, d in MEMBERS]
bad = [k for k, v in out.items() if v != want]
print("containers that do not yield exactly the members:", bad)
sys.exit(1 if bad else 0)
