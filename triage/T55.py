"""T55 — EPUB chapter with a table inside a table cell (C13, C02).

_XhtmlTextExtractor kept the table being read in flat attributes and reset them on every <table> start tag: the rows of the enclosing
table read so far were discarded, the enclosing table was never returned, its first cells were lost from the output altogether and its
remaining cells spilled into the chapter text.

exit 0 = both tables returned in source order, 1 = defect present.  Run: cd <tree> && /venv/bin/python /verif/triage/T55.py
"""
import os
import sys

sys.path.insert(0, os.getcwd())
from sharepoint2text.parsing.extractors.epub_extractor import _XhtmlTextExtractor  # noqa: E402

doc = ("<html><body><table><tr><td>a</td><td>x<table><tr><td>i1</td><td>i2</td></tr></table>y</td></tr>"
       "<tr><td>c</td><td>d</td></tr></table><p>after</p></body></html>")
p = _XhtmlTextExtractor()
p.feed(doc)
tables, text = p.get_tables(), p.get_text()
print("tables:", tables)
print("text:", repr(text))
ok = len(tables) == 2 and tables[1] == [["i1", "i2"]] and len(tables[0]) == 2 and tables[0][0][0] == "a" and tables[0][1] == ["c", "d"] and "cd" not in text
# plain tables: unchanged
q = _XhtmlTextExtractor()
q.feed("<table><tr><td>a</td><td>b</td></tr></table><table><tr><td>c</td></tr></table>")
ok = ok and q.get_tables() == [[["a", "b"]], [["c"]]]
print("ok" if ok else "BAD")
sys.exit(0 if ok else 1)
