"""T12: to_json() differs between runs for some xlsx / pdf fixtures - which field, and is it hash-seed related?"""
import json, os, subprocess, sys

ROOT = os.path.abspath(os.path.join(os.path.dirname(os.path.abspath(__file__)), ".."))
RES = os.path.join(ROOT, "sharepoint2text", "tests", "resources")
PROBE = r'''
import io, json, sys
from sharepoint2text.parsing.router import get_extractor
p = sys.argv[1]
res = [r.to_json() for r in get_extractor(p)(io.BytesIO(open(p, "rb").read()), path=p)]
sys.stdout.write(json.dumps(res, sort_keys=True))
'''


def run(seed, f):
    env = dict(os.environ, PYTHONHASHSEED=str(seed))
    out = subprocess.run([sys.executable, "-c", PROBE, f], env=env, cwd=ROOT, capture_output=True, check=True).stdout
    return json.loads(out)


def diff(a, b, path=""):
    if type(a) is not type(b):
        yield path
    elif isinstance(a, dict):
        for k in sorted(set(a) | set(b)):
            if k not in a or k not in b:
                yield path + "/" + k
            else:
                yield from diff(a[k], b[k], path + "/" + k)
    elif isinstance(a, list):
        if len(a) != len(b):
            yield path + "[len]"
        for i, (x, y) in enumerate(zip(a, b)):
            yield from diff(x, y, "%s[%d]" % (path, i))
    elif a != b:
        yield path


notes, any_diff = [], False
for rel in (os.path.join("modern_ms", "mwe.xlsx"), os.path.join("pdf", "sample.pdf")):
    f = os.path.join(RES, rel)
    r = {s: run(s, f) for s in (1, 2, 3)}
    same_seed_again = run(1, f)
    across = sorted(set(diff(r[1], r[2])) | set(diff(r[1], r[3])))
    same = sorted(set(diff(r[1], same_seed_again)))
    any_diff = any_diff or bool(across)
    sample = None
    if across:
        node = r[1]
        for part in across[0].replace("[", "/[").strip("/").split("/"):
            node = node[int(part[1:-1])] if part.startswith("[") else node[part]
        sample = node
    notes.append("%s: fields differing across PYTHONHASHSEED=1,2,3: %r; fields differing between two runs with the SAME seed 1: %r; example value %r"
                 % (rel, across, same, sample))
if any_diff:
    print("REPRODUCED: output differs run-to-run but NOT because of hash seeds (same-seed runs differ in the same fields): "
          "xlsx -> metadata.created/modified are openpyxl's DocumentProperties default datetime.now() (docProps/core.xml has no dates) copied by xlsx_extractor._extract_metadata_from_workbook; "
          "pdf -> images[].color_space = str(image_obj.get('/ColorSpace')) (pdf_extractor ~l.1591) embeds repr(IndirectObject) incl. id(pdf) memory address; no set()/dict ordering involved | "
          + " | ".join(notes))
else:
    print("NOT-REPRODUCED: identical JSON for seeds 1,2,3 | " + " | ".join(notes))
