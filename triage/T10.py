"""T10: error-path image records carry image number 0 (DOCX and ODT)."""
import io, os, sys, struct, zlib, zipfile, logging
from sharepoint2text.parsing.extractors.ms_modern.docx_extractor import read_docx
from sharepoint2text.parsing.extractors.open_office.odt_extractor import read_odt
logging.disable(logging.CRITICAL)


def png(color):
    def chunk(t, d):
        return struct.pack(">I", len(d)) + t + d + struct.pack(">I", zlib.crc32(t + d) & 0xFFFFFFFF)
    return b"\x89PNG\r\n\x1a\n" + chunk(b"IHDR", struct.pack(">IIBBBBB", 1, 1, 8, 2, 0, 0, 0)) + \
        chunk(b"IDAT", zlib.compress(b"\x00" + bytes(color))) + chunk(b"IEND", b"")


def corrupt_member(zip_bytes, payload):
    """Flip one byte of a STORED member's payload so zipfile raises 'Bad CRC-32' when it is read."""
    i = zip_bytes.index(payload)
    b = bytearray(zip_bytes)
    b[i + len(payload) - 20] ^= 0xFF
    return bytes(b)


GOOD, BAD = png((255, 0, 0)), png((0, 255, 0))

# ---------------- DOCX: rId1 -> corrupt image part, rId2 -> good image part ----------------
W = "http://schemas.openxmlformats.org/wordprocessingml/2006/main"
R = "http://schemas.openxmlformats.org/officeDocument/2006/relationships"
IMG = R + "/image"
docx = io.BytesIO()
with zipfile.ZipFile(docx, "w", zipfile.ZIP_STORED) as z:
    z.writestr("[Content_Types].xml", '<?xml version="1.0"?><Types xmlns="http://schemas.openxmlformats.org/package/2006/content-types">'
               '<Default Extension="rels" ContentType="application/vnd.openxmlformats-package.relationships+xml"/><Default Extension="xml" ContentType="application/xml"/>'
               '<Default Extension="png" ContentType="image/png"/>'
               '<Override PartName="/word/document.xml" ContentType="application/vnd.openxmlformats-officedocument.wordprocessingml.document.main+xml"/></Types>')
    z.writestr("_rels/.rels", '<?xml version="1.0"?><Relationships xmlns="http://schemas.openxmlformats.org/package/2006/relationships">'
               '<Relationship Id="rId1" Type="%s/officeDocument" Target="word/document.xml"/></Relationships>' % R)
    z.writestr("word/document.xml", '<?xml version="1.0"?><w:document xmlns:w="%s"><w:body><w:p><w:r><w:t>Hello</w:t></w:r></w:p></w:body></w:document>' % W)
    z.writestr("word/_rels/document.xml.rels", '<?xml version="1.0"?><Relationships xmlns="http://schemas.openxmlformats.org/package/2006/relationships">'
               '<Relationship Id="rId1" Type="%s" Target="media/image1.png"/><Relationship Id="rId2" Type="%s" Target="media/image2.png"/></Relationships>' % (IMG, IMG))
    z.writestr("word/media/image1.png", BAD)
    z.writestr("word/media/image2.png", GOOD)
docx_bytes = corrupt_member(docx.getvalue(), BAD)

# ---------------- ODT: first frame -> corrupt picture, second -> good picture ----------------
NS = ('xmlns:office="urn:oasis:names:tc:opendocument:xmlns:office:1.0" xmlns:text="urn:oasis:names:tc:opendocument:xmlns:text:1.0" '
      'xmlns:draw="urn:oasis:names:tc:opendocument:xmlns:drawing:1.0" xmlns:xlink="http://www.w3.org/1999/xlink" '
      'xmlns:svg="urn:oasis:names:tc:opendocument:xmlns:svg-compatible:1.0"')
odt = io.BytesIO()
with zipfile.ZipFile(odt, "w", zipfile.ZIP_STORED) as z:
    z.writestr("mimetype", "application/vnd.oasis.opendocument.text")
    z.writestr("content.xml", '<?xml version="1.0"?><office:document-content %s><office:body><office:text><text:p>Hello'
               '<draw:frame draw:name="bad" svg:width="1cm" svg:height="1cm"><draw:image xlink:href="Pictures/bad.png"/></draw:frame>'
               '<draw:frame draw:name="good" svg:width="1cm" svg:height="1cm"><draw:image xlink:href="Pictures/good.png"/></draw:frame>'
               '</text:p></office:text></office:body></office:document-content>' % NS)
    z.writestr("META-INF/manifest.xml", '<?xml version="1.0"?><manifest:manifest xmlns:manifest="urn:oasis:names:tc:opendocument:xmlns:manifest:1.0">'
               '<manifest:file-entry manifest:full-path="/" manifest:media-type="application/vnd.oasis.opendocument.text"/></manifest:manifest>')
    z.writestr("Pictures/bad.png", BAD)
    z.writestr("Pictures/good.png", GOOD)
odt_bytes = corrupt_member(odt.getvalue(), BAD)

out, hit = [], False
for label, reader, data in (("docx", read_docx, docx_bytes), ("odt", read_odt, odt_bytes)):
    try:
        res = next(reader(io.BytesIO(data), path="x." + label))
        nums = [(im.get_metadata().image_number, getattr(im, "error", None)) for im in res.iterate_images()]
        out.append("%s iterate_images -> (image_number, error)=%r" % (label, nums))
        hit = hit or any(n == 0 for n, _ in nums)
    except Exception as e:
        out.append("%s raised %s: %s" % (label, type(e).__name__, e))
print(("REPRODUCED: " if hit else "NOT-REPRODUCED: ") + " | ".join(out))
