"""A02: ODT <text:s text:c="N"/> expands to N spaces with no cap (_shared._append_element_text)."""
import io, os, sys, logging, tracemalloc
sys.path.insert(0, os.path.dirname(os.path.abspath(__file__)))
import odf
from sharepoint2text.parsing.extractors.open_office.odt_extractor import read_odt

logging.disable(logging.CRITICAL)
N = 50_000_000
body = '<office:text><text:p>a<text:s text:c="%d"/>b</text:p></office:text>' % N
data = odf.build_odf("application/vnd.oasis.opendocument.text", body)

msg = None
try:
    tracemalloc.start()
    results = list(read_odt(io.BytesIO(data), path="a.odt"))
    cur, peak = tracemalloc.get_traced_memory()
    tracemalloc.stop()
    full = results[0].get_full_text()
    plen = len(results[0].paragraphs[0].text)
    if len(full) >= N:
        msg = ("REPRODUCED: %d -> len(get_full_text())=%d, len(paragraphs[0].text)=%d, "
               "retained %.1f MB, peak memory %.1f MB" % (len(data), len(full), plen, cur / 1e6, peak / 1e6))
    else:
        msg = "NOT-REPRODUCED: len(get_full_text())=%d" % len(full)
except Exception as e:
    msg = "NOT-REPRODUCED: read_odt raised %s: %s" % (type(e).__name__, e)
print(msg)
