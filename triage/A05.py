"""A05: 7z _read_boolean_vector returns [True] * count when the all-defined byte is set.

Pack-info route: num_pack_streams = 50M, no PROP_SIZE, PROP_CRC with all-defined = 1, header ends.
"""
import io, os, sys, logging, struct, zlib, tracemalloc
sys.path.insert(0, os.path.dirname(os.path.abspath(__file__)))
import sz
from sharepoint2text.parsing.extractors.archive_extractor import read_archive
from sharepoint2text.parsing.extractors.util.sevenzip import SevenZipFile

logging.disable(logging.CRITICAL)
COUNT = 50_000_000


def wrap(header: bytes) -> bytes:
    start = struct.pack("<QQI", 0, len(header), zlib.crc32(header) & 0xFFFFFFFF)
    return sz.MAGIC + bytes([0, 4]) + struct.pack("<I", zlib.crc32(start) & 0xFFFFFFFF) + start + header


# HEADER, MAIN_STREAMS_INFO, PACK_INFO, pack_pos=0, num_pack_streams=COUNT, PROP_CRC, all_defined=1
data = wrap(bytes([0x01, 0x04, 0x06]) + sz.num(0) + sz.num(COUNT) + bytes([0x0A, 0x01]))


def run(fn):
    tracemalloc.start()
    outcome = "returned"
    try:
        fn()
    except BaseException as e:  # noqa
        outcome = "%s: %s" % (type(e).__name__, e)
    _, peak = tracemalloc.get_traced_memory()
    tracemalloc.stop()
    return peak, outcome


def via_szf():
    with SevenZipFile(io.BytesIO(data), "r") as z:
        z.list()


peak1, out1 = run(via_szf)
peak2, out2 = run(lambda: list(read_archive(io.BytesIO(data), path="a.7z")))
if max(peak1, peak2) >= 8 * COUNT * 0.9:
    print("REPRODUCED: %d -> peak memory %.1f MB in SevenZipFile (%s), %.1f MB in read_archive (%s) "
          "for declared num_pack_streams=%d with CRC all-defined=1" %
          (len(data), peak1 / 1e6, out1, peak2 / 1e6, out2, COUNT))
else:
    print("NOT-REPRODUCED: peak %.1f MB (SevenZipFile: %s) / %.1f MB (read_archive: %s)"
          % (peak1 / 1e6, out1, peak2 / 1e6, out2))
