"""C02/C13 HTML: a table nested in a cell."""
import io, sys
sys.path.insert(0, "/repo")
from sharepoint2text.parsing.extractors.html_extractor import read_html
html = b"<html><body><p>before</p><table><thead><tr><th>H1</th><th>H2</th></tr></thead><tbody><tr><td>a<table><tr><td>n1</td><td>n2</td></tr></table></td><td>b</td></tr></tbody></table><p>after</p></body></html>"
r = next(iter(read_html(io.BytesIO(html), "x.html")))
print("tables:", r.tables)
print("text:", repr(r.get_full_text()))
