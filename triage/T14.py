import io, sys
sys.path.insert(0, "/verif/triage"); sys.path.insert(0, "/repo")
from odf import build_odf
from sharepoint2text.parsing.extractors.open_office.odt_extractor import read_odt
def run(body):
    data = build_odf("application/vnd.oasis.opendocument.text", "<office:text>%s</office:text>" % body)
    r = next(iter(read_odt(io.BytesIO(data), "x.odt")))
    return r
P = lambda t: "<text:p>%s</text:p>" % t
# nested list
r = run('<text:list><text:list-item>%s<text:list><text:list-item>%s</text:list-item></text:list></text:list-item></text:list>' % (P("OUTER"), P("INNER")))
print("nested list:", repr(r.get_full_text()))
# heading in list
r = run('<text:list><text:list-item><text:h text:outline-level="1">HEAD</text:h></text:list-item></text:list>' + P("after"))
print("heading in list:", repr(r.get_full_text()))
# nested table
cell = lambda inner: '<table:table-cell>%s</table:table-cell>' % inner
tbl = lambda rows: '<table:table>%s</table:table>' % "".join('<table:table-row>%s</table:table-row>' % r for r in rows)
r = run(tbl([cell(P("A") + tbl([cell(P("IN"))])) + cell(P("B"))]))
print("nested table:", repr(r.get_full_text()), [t.data for t in r.tables])
# tracked deletion
r = run('<text:tracked-changes><text:changed-region text:id="c1"><text:deletion><office:change-info/><text:p>DELETED</text:p></text:deletion></text:changed-region></text:tracked-changes>' + P("kept<text:change text:change-id='c1'/>"))
print("tracked:", repr(r.get_full_text()))
# header rows
r = run('<table:table><table:table-header-rows><table:table-row>%s</table:table-row></table:table-header-rows><table:table-row>%s</table:table-row></table:table>' % (cell(P("H")), cell(P("D"))))
print("header rows:", repr(r.get_full_text()), [t.data for t in r.tables])
# section / list in table
r = run('<text:section>%s</text:section>' % P("SEC") + tbl([cell('<text:list><text:list-item>%s</text:list-item></text:list>' % P("LI"))]))
print("section+list in cell:", repr(r.get_full_text()))
# C13: comment in a table cell, heading in a cell, text frame in a cell paragraph
DC = 'xmlns:dc="http://purl.org/dc/elements/1.1/"'
ann = '<office:annotation %s><dc:creator>Bob</dc:creator><text:p>SECRET</text:p></office:annotation>' % DC
r = run(tbl([cell('<text:p>CELL' + ann + '</text:p><text:h>HEAD_IN_CELL</text:h>') + cell(P('X<draw:frame><draw:text-box><text:p>BOXED</text:p></draw:text-box></draw:frame>'))]))
print("cell comment/heading/frame:", [t.data for t in r.tables])
