"""C02 -- DOCX tracked moves: the text inside w:moveFrom is removed text (the sentence now lives in the matching w:moveTo); it was
emitted as well, so a moved sentence appeared twice.  w:noBreakHyphen is a visible character that was dropped ('co-op' -> 'coop').
Run from the repository root; exits 1 when the moved text is repeated or the hyphen is missing."""
import io
import os
import sys
import zipfile

sys.path.insert(0, os.getcwd())
import logging

logging.disable(logging.CRITICAL)
from sharepoint2text.parsing.extractors.ms_modern.docx_extractor import read_docx

W = "http://schemas.openxmlformats.org/wordprocessingml/2006/main"
body = ('<w:p><w:moveFrom w:id="1" w:author="a"><w:r><w:t>Moved sentence.</w:t></w:r></w:moveFrom><w:r><w:t> Kept.</w:t></w:r></w:p>'
        '<w:p><w:moveTo w:id="2" w:author="a"><w:r><w:t>Moved sentence.</w:t></w:r></w:moveTo></w:p>'
        '<w:p><w:r><w:t>co</w:t><w:noBreakHyphen/><w:t>op</w:t></w:r></w:p>')
b = io.BytesIO()
with zipfile.ZipFile(b, "w") as z:
    z.writestr("[Content_Types].xml", '<?xml version="1.0"?><Types xmlns="http://schemas.openxmlformats.org/package/2006/content-types"><Default Extension="rels" ContentType="application/vnd.openxmlformats-package.relationships+xml"/><Default Extension="xml" ContentType="application/xml"/><Override PartName="/word/document.xml" ContentType="application/vnd.openxmlformats-officedocument.wordprocessingml.document.main+xml"/></Types>')
    z.writestr("_rels/.rels", '<?xml version="1.0"?><Relationships xmlns="http://schemas.openxmlformats.org/package/2006/relationships"><Relationship Id="rId1" Type="http://schemas.openxmlformats.org/officeDocument/2006/relationships/officeDocument" Target="word/document.xml"/></Relationships>')
    z.writestr("word/document.xml", f'<?xml version="1.0"?><w:document xmlns:w="{W}"><w:body>{body}</w:body></w:document>')
b.seek(0)
text = next(iter(read_docx(b, "a.docx"))).get_full_text()
print("text:", repr(text))
print("expected: 'Moved sentence.' once, 'co\\u2011op' with its hyphen")
sys.exit(0 if text.count("Moved sentence.") == 1 and "coop" not in text else 1)
