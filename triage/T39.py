"""T39 (C03 / C13 / C14): EPUB manifest hrefs that are percent-encoded or parent-relative are not resolved.

hrefs are IRI references relative to the OPF: Sigil / Calibre write 'chapter%201.xhtml' for a part named 'chapter 1.xhtml', and an
OPF in OEBPS/pkg/ refers to '../images/a.png'. resolve_href concatenated the OPF directory and the href as it stood, so such
chapters (with their tables) and images were silently left out.  Run with cwd = a checkout; exit 1 when content is missing.
"""
import io
import logging
import os
import sys
import zipfile

sys.path.insert(0, os.getcwd())
logging.disable(logging.CRITICAL)
from sharepoint2text.parsing.extractors.epub_extractor import read_epub  # noqa: E402

PNG = bytes.fromhex("89504e470d0a1a0a0000000d49484452000000010000000108060000001f15c4890000000d49444154789c6360000002000001e221bc330000000049454e44ae426082")
buf = io.BytesIO()
with zipfile.ZipFile(buf, "w") as z:
    z.writestr("mimetype", "application/epub+zip")
    z.writestr("META-INF/container.xml", '<?xml version="1.0"?><container version="1.0" xmlns="urn:oasis:names:tc:opendocument:xmlns:container"><rootfiles>'
               '<rootfile full-path="OEBPS/pkg/content.opf" media-type="application/oebps-package+xml"/></rootfiles></container>')
    z.writestr("OEBPS/pkg/content.opf", '<?xml version="1.0"?><package xmlns="http://www.idpf.org/2007/opf" version="3.0" unique-identifier="id">'
               '<metadata xmlns:dc="http://purl.org/dc/elements/1.1/"><dc:title>T</dc:title><dc:identifier id="id">x</dc:identifier></metadata><manifest>'
               '<item id="c1" href="chapter%201.xhtml" media-type="application/xhtml+xml"/>'
               '<item id="c2" href="../text/two.xhtml#start" media-type="application/xhtml+xml"/>'
               '<item id="i1" href="../images/a.png" media-type="image/png"/></manifest>'
               '<spine><itemref idref="c1"/><itemref idref="c2"/></spine></package>')
    z.writestr("OEBPS/pkg/chapter 1.xhtml", '<html xmlns="http://www.w3.org/1999/xhtml"><body><p>FIRST CHAPTER</p><table><tr><td>c11</td><td>c12</td></tr></table></body></html>')
    z.writestr("OEBPS/text/two.xhtml", '<html xmlns="http://www.w3.org/1999/xhtml"><body><p>SECOND CHAPTER</p></body></html>')
    z.writestr("OEBPS/images/a.png", PNG)
r = list(read_epub(io.BytesIO(buf.getvalue()), "b.epub"))[0]
text = r.get_full_text()
tables = [t.get_table() for t in r.iterate_tables()]
images = [len(i.get_bytes().getvalue()) for i in r.iterate_images()]
print("units:", len(list(r.iterate_units())), "tables:", tables, "images:", images)
ok = "FIRST CHAPTER" in text and "SECOND CHAPTER" in text and tables == [[["c11", "c12"]]] and images == [len(PNG)]
sys.exit(0 if ok else 1)
