"""C07 -- the routing decision depends only on the name: the MIME database of the host must not change it.

A host whose /etc/mime.types (or registry) maps an extension the library does not know to a MIME type the library does know made
get_extractor() / is_supported_file() accept that extension: the same name was routed on one host and refused on another.
mimetypes.add_type() below does to the process what such a host file does at interpreter start-up.
Run from the repository root; exits 1 when the host table changes the decision."""
import mimetypes
import os
import sys

sys.path.insert(0, os.getcwd())
import logging

logging.disable(logging.CRITICAL)
from sharepoint2text.parsing.exceptions import ExtractionFileFormatNotSupportedError
from sharepoint2text.parsing.router import get_extractor, is_supported_file


def decision(name):
    try:
        return get_extractor(name).__name__, is_supported_file(name)
    except ExtractionFileFormatNotSupportedError:
        return "not supported", is_supported_file(name)


before = decision("report.prn")
mimetypes.add_type("application/pdf", ".prn")  # what an entry "application/pdf prn" in /etc/mime.types does
after = decision("report.prn")
print("plain host          :", before)
print("host maps .prn->pdf :", after)
print("property demands    : the same decision on every host")
sys.exit(0 if before == after else 1)
