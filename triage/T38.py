"""T38 (C13): ODS rows inside table:table-header-rows / table:table-row-group are dropped and covered cells are skipped.

LibreOffice wraps rows in <table:table-header-rows> when 'rows to repeat' is set and in <table:table-row-group> for outline
groups; the area behind a merged cell is written as <table:covered-table-cell/>. _extract_sheet looked at direct
<table:table-row> children of the sheet and at <table:table-cell> children of a row only: a 3x3 sheet with a header row, a merged
A2:B2 and a grouped row came back as 1x2 with 'c3' in column 2.  Run with cwd = a checkout; exit 1 when the grid differs.
"""
import io
import logging
import os
import sys
import zipfile

sys.path.insert(0, os.getcwd())
logging.disable(logging.CRITICAL)
from sharepoint2text.parsing.extractors.open_office.ods_extractor import read_ods  # noqa: E402

NS = ('xmlns:office="urn:oasis:names:tc:opendocument:xmlns:office:1.0" xmlns:table="urn:oasis:names:tc:opendocument:xmlns:table:1.0" '
      'xmlns:text="urn:oasis:names:tc:opendocument:xmlns:text:1.0"')


def cell(t):
    return f'<table:table-cell office:value-type="string"><text:p>{t}</text:p></table:table-cell>'


content = f'''<?xml version="1.0"?><office:document-content {NS} office:version="1.2"><office:body><office:spreadsheet>
<table:table table:name="S1">
<table:table-header-rows><table:table-row>{cell("H1")}{cell("H2")}{cell("H3")}</table:table-row></table:table-header-rows>
<table:table-row><table:table-cell office:value-type="string" table:number-columns-spanned="2"><text:p>merged</text:p></table:table-cell><table:covered-table-cell/>{cell("c3")}</table:table-row>
<table:table-row-group><table:table-row>{cell("g1")}{cell("g2")}{cell("g3")}</table:table-row></table:table-row-group>
</table:table></office:spreadsheet></office:body></office:document-content>'''
b = io.BytesIO()
with zipfile.ZipFile(b, "w") as z:
    z.writestr("mimetype", "application/vnd.oasis.opendocument.spreadsheet")
    z.writestr("content.xml", content)
    z.writestr("META-INF/manifest.xml", '<?xml version="1.0"?><manifest:manifest xmlns:manifest="urn:oasis:names:tc:opendocument:xmlns:manifest:1.0">'
               '<manifest:file-entry manifest:full-path="/" manifest:media-type="application/vnd.oasis.opendocument.spreadsheet"/></manifest:manifest>')
r = list(read_ods(io.BytesIO(b.getvalue()), "a.ods"))[0]
t = list(r.iterate_tables())[0]
got = t.get_table()
want = [["H1", "H2", "H3"], ["merged", None, "c3"], ["g1", "g2", "g3"]]
print(got, t.get_dim())
ok = [[c if c not in ("",) else None for c in row] for row in got] == want and (t.get_dim().rows, t.get_dim().columns) == (3, 3)
sys.exit(0 if ok else 1)
