"""Tiny 7z writer (plain, non-encoded header) for triage scripts.

build_7z(folders, files, pack_streams)
  folders: list of dict(coder=b"\\x00"|b"\\x21"|..., props=bytes|None,
                        unpack_size=int, sub_sizes=[int,...] (sizes of files in folder))
  pack_streams: list of bytes, concatenated after the signature header
  files: list of dict(name=str | list-of-utf16-code-units, empty=bool, empty_file=bool, attr=int|None)
"""
import struct
import zlib

MAGIC = b"7z\xbc\xaf\x27\x1c"


def num(v: int) -> bytes:
    """7z variable length number."""
    if v < 0x80:
        return bytes([v])
    first = 0
    mask = 0x80
    for i in range(1, 9):
        first |= mask
        mask >>= 1
        if i == 8:
            return bytes([0xFF]) + v.to_bytes(8, "little")
        if v < (1 << (7 * (i + 1))):
            hi = v >> (8 * i)
            return bytes([first | hi]) + (v & ((1 << (8 * i)) - 1)).to_bytes(i, "little")
    raise ValueError(v)


def boolvec(bits) -> bytes:
    out = bytearray()
    cur = 0
    mask = 0x80
    for b in bits:
        if b:
            cur |= mask
        mask >>= 1
        if mask == 0:
            out.append(cur)
            cur = 0
            mask = 0x80
    if mask != 0x80:
        out.append(cur)
    return bytes(out)


def utf16_units(name) -> bytes:
    if isinstance(name, str):
        return name.encode("utf-16-le") + b"\x00\x00"
    return b"".join(struct.pack("<H", u) for u in name) + b"\x00\x00"


def build_header(folders, files, pack_sizes) -> bytes:
    h = bytearray([0x01])  # HEADER
    if folders:
        h += bytes([0x04])  # MAIN_STREAMS_INFO
        # PackInfo
        h += bytes([0x06]) + num(0) + num(len(pack_sizes))
        h += bytes([0x09]) + b"".join(num(s) for s in pack_sizes)
        h += bytes([0x00])
        # UnpackInfo
        h += bytes([0x07, 0x0B]) + num(len(folders)) + bytes([0x00])
        for f in folders:
            h += num(1)  # one coder
            cid = f["coder"]
            flags = len(cid) | (0x20 if f.get("props") is not None else 0)
            h += bytes([flags]) + cid
            if f.get("props") is not None:
                h += num(len(f["props"])) + f["props"]
        h += bytes([0x0C]) + b"".join(num(f["unpack_size"]) for f in folders)
        h += bytes([0x00])
        # SubStreamsInfo
        h += bytes([0x08])
        h += bytes([0x0D]) + b"".join(num(len(f["sub_sizes"])) for f in folders)
        if any(len(f["sub_sizes"]) > 1 for f in folders):
            h += bytes([0x09])
            for f in folders:
                for s in f["sub_sizes"][:-1]:
                    h += num(s)
        h += bytes([0x00])
        h += bytes([0x00])  # end of streams info
    # FilesInfo
    h += bytes([0x05]) + num(len(files))
    if any(f.get("empty") for f in files):
        vec = boolvec([bool(f.get("empty")) for f in files])
        h += bytes([0x0E]) + num(len(vec)) + vec
        if any(f.get("empty_file") for f in files):  # kEmptyFile: one bit per empty-stream entry, set = zero-length file
            vec = boolvec([bool(f.get("empty_file")) for f in files if f.get("empty")])
            h += bytes([0x0F]) + num(len(vec)) + vec
    names = b"\x00" + b"".join(utf16_units(f["name"]) for f in files)
    h += bytes([0x11]) + num(len(names)) + names
    if any(f.get("attr") is not None for f in files):
        body = b"\x01" + b"".join(struct.pack("<I", f.get("attr") or 0) for f in files)
        h += bytes([0x15]) + num(len(body)) + body
    h += bytes([0x00])  # end files info
    h += bytes([0x00])  # end header
    return bytes(h)


def build_7z(folders, files, pack_streams) -> bytes:
    packed = b"".join(pack_streams)
    header = build_header(folders, files, [len(p) for p in pack_streams])
    start = struct.pack("<QQI", len(packed), len(header), zlib.crc32(header) & 0xFFFFFFFF)
    sig = MAGIC + bytes([0, 4]) + struct.pack("<I", zlib.crc32(start) & 0xFFFFFFFF) + start
    return sig + packed + header


def copy_folder(*datas):
    """One Copy-coder folder holding the given file payloads (solid)."""
    blob = b"".join(datas)
    return dict(coder=b"\x00", props=None, unpack_size=len(blob),
                sub_sizes=[len(d) for d in datas]), blob
