"""C02 ODS: cell comments (office:annotation) vs cell text; ODP grouped frames / shapes / notes."""
import io, sys
sys.path.insert(0, "/verif/triage"); sys.path.insert(0, "/repo")
from odf import build_odf, NSDECL
from sharepoint2text.parsing.extractors.open_office.ods_extractor import read_ods
from sharepoint2text.parsing.extractors.open_office.odp_extractor import read_odp
body = ('<office:spreadsheet><table:table table:name="S1"><table:table-row>'
        '<table:table-cell office:value-type="string"><office:annotation><dc:creator xmlns:dc="http://purl.org/dc/elements/1.1/">Bob</dc:creator>'
        '<text:p>SECRET_COMMENT</text:p></office:annotation><text:p>CELLTEXT</text:p></table:table-cell>'
        '</table:table-row></table:table></office:spreadsheet>')
r = next(iter(read_ods(io.BytesIO(build_odf("application/vnd.oasis.opendocument.spreadsheet", body)), "x.ods")))
print("ods full text:", repr(r.get_full_text()), "annotations:", [a.text for s in r.sheets for a in s.annotations])
P = lambda t, st="": '<text:p%s>%s</text:p>' % (' text:style-name="%s"' % st if st else "", t)
frame = lambda inner, y="1cm": '<draw:frame svg:x="1cm" svg:y="%s" svg:width="5cm" svg:height="1cm"><draw:text-box>%s</draw:text-box></draw:frame>' % (y, inner)
pres = 'xmlns:presentation="urn:oasis:names:tc:opendocument:xmlns:presentation:1.0"'
body = ('<office:presentation><draw:page draw:name="p1" %s>' % pres + frame(P("TOP"), "1cm")
        + '<draw:g>' + frame(P("IN_GROUP"), "3cm") + '</draw:g>'
        + '<draw:custom-shape svg:x="1cm" svg:y="5cm">' + P("IN_SHAPE") + '</draw:custom-shape>'
        + frame(P("T1", "Title") + P("T2", "Title"), "7cm")
        + '<presentation:notes>' + frame(P("NOTE")) + '</presentation:notes></draw:page></office:presentation>')
r = next(iter(read_odp(io.BytesIO(build_odf("application/vnd.oasis.opendocument.presentation", body)), "x.odp")))
print("odp full text:", repr(r.get_full_text()), "notes:", r.slides[0].notes)
