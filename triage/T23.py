"""T23 (C02): two losses/inventions at the edges of an HTML input.

(a) UTF-16 input with a byte order mark: the BOM was recognised but not removed, U+FEFF was decoded into the text and came
    out as a line of its own in front of the body text (text that is not in the source). The UTF-8 branch strips its BOM.
(b) character data after the last tag that contains '&' (and no later white space / ';'): html.parser keeps it buffered
    until close(); read_html never flushed, so the text was lost ('AT&T' as a whole file -> '').

Run with cwd = a checkout; exit 1 when either happens.
"""
import io
import os
import sys

sys.path.insert(0, os.getcwd())
from sharepoint2text.parsing.extractors.html_extractor import read_html  # noqa: E402


def text(b):
    return list(read_html(io.BytesIO(b), "a.html"))[0].get_full_text()


CASES = [
    ("utf-16-le BOM fragment", b"\xff\xfe" + "<p>x</p>".encode("utf-16-le"), "x"),
    ("utf-16-be BOM fragment", b"\xfe\xff" + "<p>x</p>".encode("utf-16-be"), "x"),
    ("utf-8 BOM fragment", b"\xef\xbb\xbf<p>x</p>", "x"),
    ("tail with ampersand", b"<p>first</p>Q&A", "first\nQ&A"),
    ("whole file is text with ampersand", b"AT&T", "AT&T"),
    ("open paragraph", b"<p>R&D", "R&D"),
    ("unterminated comment stays hidden", b"<p>visible</p><!-- hidden <b>x</b> ...", "visible"),
    ("unterminated script stays hidden", b"<p>v</p><script>a && b", "v"),
]
bad = 0
for name, data, want in CASES:
    got = text(data)
    ok = got == want
    bad += 0 if ok else 1
    print(("ok  " if ok else "BAD ") + f"{name}: {got!r} (expected {want!r})")
sys.exit(1 if bad else 0)
