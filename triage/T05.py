"""T05: non-BMP member name -> lone surrogates."""
import io, os, sys, logging
sys.path.insert(0, os.path.dirname(os.path.abspath(__file__)))
import sz
from sharepoint2text.parsing.extractors import archive_extractor as ae
from sharepoint2text.parsing.extractors.util.sevenzip import SevenZipReader
logging.disable(logging.CRITICAL)

name = "\U0001F600.txt"
folder, blob = sz.copy_folder(b"smile\n")
data = sz.build_7z([folder], [dict(name=name)], [blob])
listed = SevenZipReader(io.BytesIO(data)).list()[0].filename
lone = listed != name and any(0xD800 <= ord(ch) <= 0xDFFF for ch in listed)
try:
    listed.encode("utf-8"); enc = "encodable"
except UnicodeEncodeError as e:
    enc = "UnicodeEncodeError"
try:
    res = list(ae.read_archive(io.BytesIO(data), path="emoji.7z"))
    outcome = "read_archive returned %d results" % len(res)
    for r in res:
        fp = r.get_metadata().file_path
        try:
            fp.encode("utf-8"); outcome += "; file_path %r utf-8 OK" % fp
        except UnicodeEncodeError:
            outcome += "; file_path %r NOT utf-8 encodable" % fp
except Exception as e:
    outcome = "read_archive raised %s: %s (cause %r)" % (type(e).__name__, e, getattr(e, "__cause__", None))
if lone:
    print("REPRODUCED: name %r is listed as %r (len %d, lone surrogates, utf-8: %s); %s" % (name, listed, len(listed), enc, outcome))
else:
    print("NOT-REPRODUCED: listed name %r; %s" % (listed, outcome))
