"""C02 -- HTML: the <caption> of a table is visible text of the document; it was in neither the text nor anywhere else.
Run from the repository root; exits 1 when the caption is missing from get_full_text()."""
import io
import os
import sys

sys.path.insert(0, os.getcwd())
import logging

logging.disable(logging.CRITICAL)
from sharepoint2text.parsing.extractors.html_extractor import read_html

html = ("<html><body><p>Before</p><table><caption>Table 1: Sales by region</caption><tr><th>Region</th><th>Sales</th></tr>"
        "<tr><td>North</td><td>1</td></tr></table><p>After</p></body></html>")
r = next(iter(read_html(io.BytesIO(html.encode()), "a.html")))
text = r.get_full_text()
print("text  :", repr(text))
print("tables:", [t.get_table() for t in r.iterate_tables()])
print("expected: 'Table 1: Sales by region' in the text, the grid unchanged")
sys.exit(0 if "Table 1: Sales by region" in text and [t.get_table() for t in r.iterate_tables()] == [[["Region", "Sales"], ["North", "1"]]] else 1)
