"""T09: a text-less slide in the middle is dropped, shifting later slides' numbers."""
import io, os, sys, logging
import olefile
from sharepoint2text.parsing.extractors.ms_legacy import ppt_extractor as pe
logging.disable(logging.CRITICAL)

FIX = os.path.join(os.path.dirname(os.path.abspath(__file__)), "..", "sharepoint2text", "tests", "resources", "legacy_ms", "eurouni2.ppt")
raw = bytearray(open(FIX, "rb").read())
ole = olefile.OleFileIO(io.BytesIO(bytes(raw)))
stream = ole.openstream("PowerPoint Document").read()

# stream offset -> file offset map via the FAT chain (stream is > 4096 B so it lives in regular sectors)
entry = ole.direntries[ole._find(["PowerPoint Document"])]
ss = ole.sectorsize
chain, sect = [], entry.isectStart
while sect not in (0xFFFFFFFE, 0xFFFFFFFF) and len(chain) * ss < len(stream):
    chain.append(sect); sect = ole.fat[sect]
def fpos(off):
    return (chain[off // ss] + 1) * ss + off % ss

SLIDE_TO_BLANK = 2
blanked = []
for rec in pe._iter_records(stream):
    if rec.rec_type == pe.RT_SLIDE_LIST_WITH_TEXT and rec.rec_instance == 0:
        base = rec.offset + 8
        slide_no = 0
        for sub in pe._iter_records(rec.data):
            if sub.rec_type == pe.RT_SLIDE_PERSIST_ATOM:
                slide_no += 1
            elif slide_no == SLIDE_TO_BLANK and sub.rec_type in (pe.RT_TEXT_CHARS_ATOM, pe.RT_TEXT_BYTES_ATOM):
                start, n = base + sub.offset + 8, len(sub.data)
                fill = b" " * n if sub.rec_type == pe.RT_TEXT_BYTES_ATOM else b" \x00" * (n // 2)
                blanked.append(pe._decode_text(sub.rec_type, sub.data)[:25])
                for i in range(n):       # in-place, same length: blank the text atom with spaces
                    raw[fpos(start + i)] = fill[i]

def titles(data, n=4):
    r = next(pe.read_ppt(io.BytesIO(bytes(data)), path="eurouni2.ppt"))
    units = list(r.iterate_units())
    return len(r.slides), [(u.get_metadata().unit_number, u.get_text().split("\n")[0][:30]) for u in units[:n]]

n0, orig = titles(open(FIX, "rb").read())
n1, patched = titles(raw)
if patched[1][0] == 2 and patched[1][1] == orig[2][1] and n1 < n0:
    print("REPRODUCED: after blanking slide 2's text atoms (%r) units are %r (was %r): slide 3's text is now reported as unit 2 and the slide count dropped %d -> %d"
          % (blanked[:2], patched[:3], orig[:3], n0, n1))
else:
    print("NOT-REPRODUCED: orig=%r patched=%r blanked=%r counts %d->%d" % (orig, patched, blanked, n0, n1))
