"""T44 (C02): the cells and rows of an RTF table are glued together in the full text.

Table text ends with \\cell and \\row, not \\par; the stripper knew \\par, \\line, \\tab only, so
'{\\trowd ... AAA\\cell BBB\\cell\\row\\pard after\\par}' gave 'AAABBBafter' — tokens that are not in the source.
Run with cwd = a checkout; exit 1 when the cell texts are glued.
"""
import io
import logging
import os
import sys

sys.path.insert(0, os.getcwd())
logging.disable(logging.CRITICAL)
from sharepoint2text.parsing.extractors.ms_legacy.rtf_extractor import read_rtf  # noqa: E402

r = rb"{\rtf1\ansi \trowd\cellx100\cellx200 AAA\cell BBB\cell\row\pard after\par}"
t = list(read_rtf(io.BytesIO(r), "a.rtf"))[0].get_full_text()
print(repr(t))
sys.exit(0 if t.split() == ["AAA", "BBB", "after"] else 1)
