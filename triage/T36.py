"""T36 (C17 / C02): the text of an HTML-only e-mail is its raw markup.

EmailContent.iterate_units fell back to `body_html` as it stands when the message has no text/plain part (newsletters, most
automated mail): get_full_text() returned the tags, the <style> sheet, the <script> code and the comments. The .msg reader converts
its HTML body to text; the .eml and .mbox readers did not.  Run with cwd = a checkout; exit 1 when markup or hidden content appears.
"""
import io
import logging
import os
import sys

sys.path.insert(0, os.getcwd())
logging.disable(logging.CRITICAL)
from sharepoint2text.parsing.extractors.mail.eml_email_extractor import read_eml_format_mail  # noqa: E402
from sharepoint2text.parsing.extractors.mail.mbox_email_extractor import read_mbox_format_mail  # noqa: E402

MSG = (b"From: a@x.org\r\nTo: b@x.org\r\nSubject: news\r\nDate: Mon, 1 Jan 2024 10:00:00 +0000\r\nMessage-ID: <1@x>\r\nMIME-Version: 1.0\r\n"
       b"Content-Type: text/html; charset=utf-8\r\n\r\n"
       b"<html><head><style>p{color:red}</style></head><body><script>track()</script><!-- HIDDEN --><p>Hello <b>world</b></p></body></html>\r\n")
bad = 0
for name, res in (("eml", list(read_eml_format_mail(io.BytesIO(MSG), "m.eml"))[0]),
                  ("mbox", list(read_mbox_format_mail(io.BytesIO(b"From a@x Mon Jan  1 10:00:00 2024\r\n" + MSG), "m.mbox"))[0])):
    t = res.get_full_text()
    ok = "Hello" in t and "world" in t and not any(x in t for x in ("<p>", "track()", "HIDDEN", "color:red"))
    bad += 0 if ok else 1
    print(("ok  " if ok else "BAD ") + f"{name}: {t!r}")
sys.exit(1 if bad else 0)
