"""Minimal DOCX package builder for triage scripts."""
import io, zipfile
W = "http://schemas.openxmlformats.org/wordprocessingml/2006/main"
NSDECL = ('xmlns:w="%s" xmlns:mc="http://schemas.openxmlformats.org/markup-compatibility/2006" '
          'xmlns:wps="http://schemas.microsoft.com/office/word/2010/wordprocessingShape" '
          'xmlns:wp="http://schemas.openxmlformats.org/drawingml/2006/wordprocessingDrawing" '
          'xmlns:a="http://schemas.openxmlformats.org/drawingml/2006/main" xmlns:v="urn:schemas-microsoft-com:vml" '
          'xmlns:m="http://schemas.openxmlformats.org/officeDocument/2006/math"' % W)
def p(t): return "<w:p><w:r><w:t>%s</w:t></w:r></w:p>" % t
def tc(inner): return "<w:tc><w:tcPr/>%s</w:tc>" % inner
def tr(*cells): return "<w:tr>%s</w:tr>" % "".join(cells)
def tbl(*rows): return "<w:tbl><w:tblPr/><w:tblGrid/>%s</w:tbl>" % "".join(rows)
def sdt(inner): return "<w:sdt><w:sdtPr/><w:sdtContent>%s</w:sdtContent></w:sdt>" % inner
def textbox(t):
    return ('<w:p><w:r><mc:AlternateContent><mc:Choice Requires="wps"><w:drawing><wp:anchor><a:graphic><a:graphicData>'
            '<wps:wsp><wps:txbx><w:txbxContent>%s</w:txbxContent></wps:txbx></wps:wsp></a:graphicData></a:graphic></wp:anchor></w:drawing></mc:Choice>'
            '<mc:Fallback><w:pict><v:shape><v:textbox><w:txbxContent>%s</w:txbxContent></v:textbox></v:shape></w:pict></mc:Fallback>'
            '</mc:AlternateContent></w:r></w:p>' % (p(t), p(t)))
def build(body_xml: str) -> bytes:
    doc = '<?xml version="1.0" encoding="UTF-8" standalone="yes"?><w:document %s><w:body>%s<w:sectPr/></w:body></w:document>' % (NSDECL, body_xml)
    ct = ('<?xml version="1.0" encoding="UTF-8" standalone="yes"?><Types xmlns="http://schemas.openxmlformats.org/package/2006/content-types">'
          '<Default Extension="rels" ContentType="application/vnd.openxmlformats-package.relationships+xml"/><Default Extension="xml" ContentType="application/xml"/>'
          '<Override PartName="/word/document.xml" ContentType="application/vnd.openxmlformats-officedocument.wordprocessingml.document.main+xml"/></Types>')
    rels = ('<?xml version="1.0" encoding="UTF-8" standalone="yes"?><Relationships xmlns="http://schemas.openxmlformats.org/package/2006/relationships">'
            '<Relationship Id="rId1" Type="http://schemas.openxmlformats.org/officeDocument/2006/relationships/officeDocument" Target="word/document.xml"/></Relationships>')
    buf = io.BytesIO()
    with zipfile.ZipFile(buf, "w", zipfile.ZIP_DEFLATED) as z:
        z.writestr("[Content_Types].xml", ct); z.writestr("_rels/.rels", rels); z.writestr("word/document.xml", doc)
    return buf.getvalue()
