"""T28 (C10): an uncompressed TAR whose first member name starts like another signature is not read.

A TAR file begins with the name of its first member. `BZ2020.txt` starts with the two bytes the detector took for bzip2, so the
archive was opened as tar.bz2 and failed ('not a bzip2 file'); names starting with 'PK\\x03\\x04' or '7z\\xbc\\xaf' do the same.
The ustar magic at offset 257 decides.  Run with cwd = a checkout; exit 1 when members are lost.
"""
import io
import logging
import os
import sys
import tarfile

sys.path.insert(0, os.getcwd())
logging.disable(logging.CRITICAL)
from sharepoint2text.parsing.extractors.archive_extractor import read_archive  # noqa: E402

bad = 0
for first in ("BZ2020.txt", "BZhandler.txt", "a.txt"):
    buf = io.BytesIO()
    with tarfile.open(fileobj=buf, mode="w") as t:
        for n, d in ((first, b"alpha"), ("b.txt", b"beta")):
            ti = tarfile.TarInfo(n)
            ti.size = len(d)
            t.addfile(ti, io.BytesIO(d))
    try:
        got = [(r.metadata.filename, r.get_full_text()) for r in read_archive(io.BytesIO(buf.getvalue()), "x.tar")]
    except Exception as exc:  # noqa: BLE001
        got = f"{type(exc).__name__}: {exc}"
    ok = got == [(first, "alpha"), ("b.txt", "beta")]
    bad += 0 if ok else 1
    print(("ok  " if ok else "BAD ") + f"first member {first!r}: {got}")
sys.exit(1 if bad else 0)
