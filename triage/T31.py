"""T31 (C02): paragraphs of a legacy PPT text box are glued together.

PPT text atoms end paragraphs with 0x0D and soft line breaks with 0x0B. ppt_extractor._CLEAN_TRANS mapped them to a newline, but the
same dict display then unpacked `{c: None for c in _CONTROL_CHARS}` (which contains 0x0D, 0x0B, 0x0C) AFTER the explicit entries, so
they were deleted: 'First paragraph\\rSecond' -> 'First paragraphSecond' (a token that is not in the source).
Run with cwd = a checkout; exit 1 when the separators are lost.
"""
import os
import sys

sys.path.insert(0, os.getcwd())
from sharepoint2text.parsing.extractors.ms_legacy.ppt_extractor import _clean_text  # noqa: E402

got = _clean_text("First paragraph\rSecond line\x0bsame paragraph\x0cnext")
print(repr(got))
sys.exit(0 if got == "First paragraph\nSecond line\nsame paragraph\nnext" else 1)
