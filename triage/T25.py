"""T25 (C02 / C16): an mbox message with two inline text parts loses the second one.

multipart/mixed: text/plain 'FIRST PART', inline image, text/plain 'SECOND PART' (what mail clients produce when a picture is
pasted into the middle of a plain-text mail). The .eml reader returns both parts joined by a newline; the .mbox reader took
only the first text/plain (and the first text/html) part it met.

Run with cwd = a checkout; exit 1 when the two readers disagree or body text is missing.
"""
import io
import logging
import os
import sys

sys.path.insert(0, os.getcwd())
logging.disable(logging.CRITICAL)
from sharepoint2text.parsing.extractors.mail.eml_email_extractor import read_eml_format_mail  # noqa: E402
from sharepoint2text.parsing.extractors.mail.mbox_email_extractor import read_mbox_format_mail  # noqa: E402

MSG = (b"From: a@x.org\r\nTo: b@x.org\r\nSubject: s\r\nDate: Mon, 1 Jan 2024 10:00:00 +0000\r\nMessage-ID: <1@x>\r\nMIME-Version: 1.0\r\n"
       b"Content-Type: multipart/mixed; boundary=B\r\n\r\n"
       b"--B\r\nContent-Type: text/plain; charset=utf-8\r\n\r\nFIRST PART\r\n"
       b"--B\r\nContent-Type: image/png\r\nContent-Disposition: inline; filename=i.png\r\nContent-Transfer-Encoding: base64\r\n\r\niVBORw0KGgo=\r\n"
       b"--B\r\nContent-Type: text/plain; charset=utf-8\r\n\r\nSECOND PART\r\n--B--\r\n")
e = list(read_eml_format_mail(io.BytesIO(MSG), "m.eml"))[0]
m = list(read_mbox_format_mail(io.BytesIO(b"From a@x.org Mon Jan  1 10:00:00 2024\r\n" + MSG), "m.mbox"))[0]
print("eml :", repr(e.body_plain))
print("mbox:", repr(m.body_plain))
bad = [n for n, r in (("eml", e), ("mbox", m)) if "FIRST PART" not in r.get_full_text() or "SECOND PART" not in r.get_full_text()]
print("readers that lose body text:", bad)
sys.exit(1 if bad else 0)
