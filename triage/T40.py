"""T40 (C10): one damaged folder of a non-solid 7z makes the whole archive fail.

Three folders (one per file, what `7z a -ms=off` writes): a.txt (Copy), b.txt (LZMA2, stream overwritten with 0xFF), c.txt (Copy).
extractall raised at the damaged folder, so read_archive failed with ExtractionFailedError and a.txt / c.txt were lost; a corrupt
member of a ZIP or TAR only costs itself.  Run with cwd = a checkout; exit 1 when the intact members are not returned.
"""
import io
import logging
import lzma
import os
import sys

sys.path.insert(0, os.getcwd())
sys.path.insert(0, os.path.dirname(os.path.abspath(__file__)))
logging.disable(logging.CRITICAL)
from sz import build_7z, copy_folder  # noqa: E402

from sharepoint2text.parsing.extractors.archive_extractor import read_archive  # noqa: E402

f1, b1 = copy_folder(b"alpha")
f3, b3 = copy_folder(b"gamma")
good = lzma.compress(b"beta beta beta", format=lzma.FORMAT_RAW, filters=[{"id": lzma.FILTER_LZMA2, "dict_size": 1 << 16}])
f2 = dict(coder=b"\x21", props=bytes([0x10]), unpack_size=14, sub_sizes=[14])
files = [dict(name="a.txt"), dict(name="b.txt"), dict(name="c.txt")]
bad = 0
for label, blob, want in (("intact", good, ["a.txt", "b.txt", "c.txt"]), ("b.txt damaged", b"\xff" * len(good), ["a.txt", "c.txt"])):
    try:
        got = [r.metadata.filename for r in read_archive(io.BytesIO(build_7z([f1, f2, f3], files, [b1, blob, b3])), "x.7z")]
    except Exception as exc:  # noqa: BLE001
        got = f"{type(exc).__name__}: {exc}"
    ok = got == want
    bad += 0 if ok else 1
    print(("ok  " if ok else "BAD ") + f"{label}: {got}")
sys.exit(1 if bad else 0)
