"""C12 -- RTF: patterns that are run over the whole document take super-linear time on small hostile inputs.

For each pattern a family of inputs of size n is built (the text after the pattern's prefix never lets the match complete) and the
time of read_rtf is measured for n and 2n.  A ratio of 4 means quadratic, 8 cubic.  Run from the repository root; exits 1 when a
family is super-linear (ratio >= 3 with a measurable base time)."""
import io
import os
import sys
import time

sys.path.insert(0, os.getcwd())
import logging

logging.disable(logging.CRITICAL)
from sharepoint2text.parsing.extractors.ms_legacy.rtf_extractor import read_rtf

B = "\\"
HEAD = "{" + B + "rtf1" + B + "ansi "
FAMILIES = {
    "_RE_FIELD / _RE_HYPERLINK: repeated unclosed \\field{\\fldinst{": lambda n: HEAD + (B + "field{" + B + "fldinst{") * n,
    "_HEADER_FOOTER_PATTERNS: {\\header + blanks, never closed": lambda n: HEAD + "{" + B + "header" + " " * (n * 8),
    "_HEADER_FOOTER_PATTERNS: repeated {\\header x, never closed": lambda n: HEAD + ("{" + B + "header x") * n,
    "_RE_INFO: repeated {\\info , never closed": lambda n: HEAD + ("{" + B + "info ") * n,
    "_RE_STYLESHEET: repeated {\\stylesheet": lambda n: HEAD + ("{" + B + "stylesheet") * n,
    "_RE_FOOTNOTE: {\\footnote + blanks, never closed": lambda n: HEAD + "{" + B + "footnote" + " " * (n * 8),
    "_DEST_PATTERNS[6]: {\\*\\ + letters, never closed": lambda n: HEAD + "{" + B + "*" + B + "a" * (n * 8),
}
N = int(sys.argv[1]) if len(sys.argv) > 1 else 1500
bad = 0
for name, make in FAMILIES.items():
    ts = []
    for n in (N, 2 * N):
        data = make(n).encode("ascii")
        t0 = time.perf_counter()
        try:
            list(read_rtf(io.BytesIO(data), "a.rtf"))
        except Exception as exc:  # noqa: BLE001
            pass
        ts.append((len(data), time.perf_counter() - t0))
    ratio = ts[1][1] / max(ts[0][1], 1e-6)
    slow = ts[0][1] > 0.05 and ratio >= 3
    bad += slow
    print(f"{name:62} {ts[0][0]:7d} B {ts[0][1]:7.2f}s | {ts[1][0]:7d} B {ts[1][1]:7.2f}s | x{ratio:4.1f} {'SUPER-LINEAR' if slow else ''}")
sys.exit(1 if bad else 0)
