"""Minimal ODF (ODS/ODT) package builder for triage scripts."""
import io, zipfile

NSDECL = (
    'xmlns:office="urn:oasis:names:tc:opendocument:xmlns:office:1.0" '
    'xmlns:text="urn:oasis:names:tc:opendocument:xmlns:text:1.0" '
    'xmlns:table="urn:oasis:names:tc:opendocument:xmlns:table:1.0" '
    'xmlns:draw="urn:oasis:names:tc:opendocument:xmlns:drawing:1.0" '
    'xmlns:xlink="http://www.w3.org/1999/xlink" '
    'xmlns:svg="urn:oasis:names:tc:opendocument:xmlns:svg-compatible:1.0"'
)


def build_odf(mimetype: str, body_xml: str, extra=None) -> bytes:
    content = ('<?xml version="1.0" encoding="UTF-8"?>'
               '<office:document-content %s office:version="1.2"><office:body>%s</office:body>'
               '</office:document-content>' % (NSDECL, body_xml))
    manifest = ('<?xml version="1.0" encoding="UTF-8"?>'
                '<manifest:manifest xmlns:manifest="urn:oasis:names:tc:opendocument:xmlns:manifest:1.0">'
                '<manifest:file-entry manifest:full-path="/" manifest:media-type="%s"/>'
                '<manifest:file-entry manifest:full-path="content.xml" manifest:media-type="text/xml"/>'
                '</manifest:manifest>' % mimetype)
    buf = io.BytesIO()
    with zipfile.ZipFile(buf, "w") as z:
        z.writestr(zipfile.ZipInfo("mimetype"), mimetype, compress_type=zipfile.ZIP_STORED)
        z.writestr("META-INF/manifest.xml", manifest, compress_type=zipfile.ZIP_DEFLATED)
        z.writestr("content.xml", content, compress_type=zipfile.ZIP_DEFLATED)
        for name, data in (extra or {}).items():
            z.writestr(name, data, compress_type=zipfile.ZIP_STORED)
    return buf.getvalue()
