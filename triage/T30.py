"""T30 (C08): a legacy PPT whose Current User stream says 'encrypted' is not rejected when it has no EncryptedSummary stream.

[MS-PPT] 2.3.2 CurrentUserAtom.headerToken is 0xE391C05F for a plain and 0xF3D1C4DF for an encrypted document. PowerPoint writes
the EncryptedSummary stream only when document properties are encrypted too ("do not encrypt document properties" leaves it
out), so the stream-name test alone misses such files: the reader then walks ciphertext and returns an empty presentation.
The input is a fixture of the repository with the four token bytes patched.  Run with cwd = a checkout; exit 1 when not rejected.
"""
import io
import logging
import os
import sys

sys.path.insert(0, os.getcwd())
logging.disable(logging.CRITICAL)
import olefile  # noqa: E402

from sharepoint2text.parsing.exceptions import ExtractionFileEncryptedError  # noqa: E402
from sharepoint2text.parsing.extractors.ms_legacy.ppt_extractor import read_ppt  # noqa: E402

src = os.path.join(os.getcwd(), "sharepoint2text", "tests", "resources", "legacy_ms")
name = next(f for f in sorted(os.listdir(src)) if f.lower().endswith(".ppt"))
raw = bytearray(open(os.path.join(src, name), "rb").read())
with olefile.OleFileIO(io.BytesIO(bytes(raw))) as ole:
    cu = ole.openstream("Current User").read()
assert cu[12:16] == b"\x5f\xc0\x91\xe3", cu[:20].hex()
pos = bytes(raw).find(cu[:32])
assert pos >= 0 and bytes(raw).find(cu[:32], pos + 1) < 0
raw[pos + 12:pos + 16] = b"\xdf\xc4\xd1\xf3"
bad = 0
for label, data, must_reject in (("fixture as is", open(os.path.join(src, name), "rb").read(), False), ("headerToken = 0xF3D1C4DF", bytes(raw), True)):
    try:
        n = len(list(read_ppt(io.BytesIO(data), name)))
        rejected = False
    except ExtractionFileEncryptedError:
        n, rejected = 0, True
    ok = rejected == must_reject
    bad += 0 if ok else 1
    print(("ok  " if ok else "BAD ") + f"{label}: rejected as encrypted = {rejected}, results = {n}")
sys.exit(1 if bad else 0)
