"""T42 (C04): an image accessor raises OverflowError.

An ODG / ODT frame with svg:width of several hundred digits: float() gives inf, int(round(inf)) raises OverflowError inside
OpenDocumentImage.get_metadata() (via _odf_length_to_px). Accessors of a result must not raise.
Run with cwd = a checkout; exit 1 when the conversion raises.
"""
import os
import sys

sys.path.insert(0, os.getcwd())
from sharepoint2text.parsing.extractors.data_types import _odf_length_to_px  # noqa: E402

bad = 0
for v in ("1" + "0" * 400 + "cm", "1" + "0" * 307 + "in", "2.54cm"):
    try:
        print(v[:12] + ("..." if len(v) > 12 else ""), "->", _odf_length_to_px(v))
    except Exception as exc:  # noqa: BLE001
        bad += 1
        print(v[:12], "-> raises", type(exc).__name__, exc)
sys.exit(1 if bad else 0)
