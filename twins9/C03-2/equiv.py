import os, sys, struct
sys.path.insert(0, os.getcwd())
from sharepoint2text.parsing.extractors.ms_legacy import ppt_extractor as P

def rec(rtype, payload=b"", ver=0, inst=0):
    return struct.pack("<HHI", (inst << 4) | ver, rtype, len(payload)) + payload
SPA = lambda: rec(P.RT_SLIDE_PERSIST_ATOM, b"\0" * 20)
HDR = lambda t: rec(P.RT_TEXT_HEADER_ATOM, struct.pack("<I", t))
CH = lambda s: rec(P.RT_TEXT_CHARS_ATOM, s.encode("utf-16-le"))
BY = lambda s: rec(P.RT_TEXT_BYTES_ATOM, s.encode("latin-1"))
cases = [
    b"",
    SPA(),
    SPA() + SPA() + SPA(),
    HDR(0) + CH("orphan before first slide"),
    HDR(0) + CH("orphan") + SPA() + SPA(),
    SPA() + HDR(0) + CH("Title 1") + HDR(1) + BY("Body 1") + SPA() + HDR(0) + CH("Title 2"),
    SPA() + HDR(0) + CH("T1") + SPA() + SPA() + HDR(1) + CH("B3") + SPA(),
    SPA() + SPA() + HDR(2) + BY("notes only on the second"),
    SPA() + CH("\x00\x01") + SPA() + BY("   "),
    SPA() + CH("no header") + rec(P.RT_TEXT_HEADER_ATOM, b"\x01") + BY("short header"),
    SPA() + HDR(6) + CH("x") + b"\xff\xff\xff",
    SPA() + HDR(0) + CH("last slide has text"),
    SPA() + HDR(0) + CH("first has text") + SPA(),
]
for i, c in enumerate(cases):
    try:
        res = P._parse_slide_list_container(c)
        print(i, [[(b.text, b.text_type, b.is_title, b.is_body, b.is_notes) for b in s] for s in res])
        wrapped = rec(P.RT_SLIDE_LIST_WITH_TEXT, c, ver=0x0F, inst=0)
        print("  ", [[b.text for b in s] for s in P._extract_slide_list_texts(wrapped)])
    except Exception as e:
        print(i, "EXC", type(e).__name__, e)
