import os, sys
sys.path.insert(0, os.getcwd())
from sharepoint2text.parsing.extractors.ms_modern import pptx_extractor as m

BASES = ["ppt/slides", "ppt", "", "a/b/c", "ppt//slides", "ppt/slides/"]
TARGETS = [
    "../media/image1.png", "media/image1.png", "/ppt/media/image1.png", "//ppt/../media/x.png",
    "../../media/i.png", "../../../../i.png", "../", "..", "", "/", "a/../b.png", "a/..", "./x.png",
    "..x/y.png", "x../y", ".../z", "../a/../b/./c.png", "..//media//i.png", "a//b", "../..", "a/../../b",
    "http://example.com/x.png", "..\\media\\i.png", "../media/é .png",
]
for b in BASES:
    for t in TARGETS:
        try:
            print(repr(b), repr(t), "->", repr(m._normalize_relative_path(b, t)))
        except Exception as e:
            print(repr(b), repr(t), "EXC", type(e).__name__)
