import io
import json
import os
import sys
from datetime import datetime, timedelta, timezone
from urllib.error import HTTPError, URLError

sys.path.insert(0, os.getcwd())

from sharepoint2text.sharepoint_io.client import (
    EntraIDAppCredentials,
    FileFilter,
    SharePointFileMetadata,
    SharePointRestClient,
)

BASE = "https://graph.microsoft.com/v1.0"
SUFFIX = "?$expand=listItem($expand=fields)"


def f(i, name, created=None, modified=None, **extra):
    d = {"id": i, "name": name, "file": {"mimeType": "x/y"}, "webUrl": "u/" + name}
    if created is not None:
        d["createdDateTime"] = created
    if modified is not None:
        d["lastModifiedDateTime"] = modified
    d.update(extra)
    return d


def d(i, name):
    return {"id": i, "name": name, "folder": {"childCount": 1}}


TREE = {
    None: [
        f("f1", "root.DOCX", "2024-01-01T00:00:00Z", "2024-02-01T00:00:00Z"),
        d("d1", "Reports 2024"),
        f("f2", "b.pdf", "2024-01-15T10:30:00.123Z", "2024-01-15T10:30:00.1234567Z"),
        "junk",
        {"id": "n1", "name": "notebook"},
        d("d2", "Empty"),
        f("f3", "nodate.txt"),
    ],
    "d1": [
        f("f4", "q1.pdf", "2024-03-01T00:00:00+02:00", "2024-03-02T00:00:00"),
        d("d3", "Äö #x"),
        f("f5", "q2.PDF", "garbage", "2024-01-15T10:30:00Z",
          listItem={"fields": {"Dept": "HR", "@odata.etag": "1", "id": "5"}}),
    ],
    "d2": [],
    "d3": [f("f6", "deep.xlsx", "2023-12-31T23:59:59.999999Z", "2024-01-01T00:00:00Z"),
           {"name": "noid", "folder": {}}],
}


class Resp:
    def __init__(self, status, body, log):
        self.status = status
        self._body = body
        self._log = log

    def read(self):
        return self._body

    def close(self):
        self._log.append("close")


def make_transport(page_size, drive, log, fault_at=None, fault="http"):
    counter = {"n": 0}

    def transport(request, timeout=None):
        url = request.full_url
        log.append(url.replace(BASE, ""))
        counter["n"] += 1
        if fault_at is not None and counter["n"] == fault_at:
            if fault == "http":
                raise HTTPError(url, 503, "busy", {}, io.BytesIO(b"down"))
            if fault == "url":
                raise URLError("unreachable")
            if fault == "json":
                return Resp(200, b"{not json", log)
            if fault == "status":
                return Resp(302, b"moved", log)
        if "login.microsoftonline" in url:
            return Resp(200, json.dumps({"access_token": "T"}).encode(), log)
        if url.endswith("/sites/h.example:/sites/s"):
            return Resp(200, json.dumps({"id": "SITE"}).encode(), log)
        drive_part = "/drive/" if drive is None else "/drives/%s/" % drive
        assert ("/sites/SITE" + drive_part) in url, url
        rest = url.split("/sites/SITE" + drive_part, 1)[1]
        if rest.startswith("root:/"):
            path = rest[len("root:/"):]
            table = {"Reports%202024": d("d1", "Reports 2024"), "Empty": d("d2", "Empty"),
                     "Reports%202024/%C3%84%C3%B6%20%23x": d("d3", "x"),
                     "root.DOCX": f("f1", "root.DOCX")}
            if path not in table:
                raise HTTPError(url, 404, "nf", {}, io.BytesIO(b"{}"))
            return Resp(200, json.dumps(table[path]).encode(), log)
        skip = 0
        if "&skip=" in rest:
            rest, s = rest.split("&skip=")
            skip = int(s)
        assert rest.endswith("/children" + SUFFIX), rest
        head = rest[: -len("/children" + SUFFIX)]
        key = None if head == "root" else head.split("items/", 1)[1]
        items = TREE[key]
        page = {"value": items[skip: skip + page_size]}
        if skip + page_size < len(items):
            page["@odata.nextLink"] = url.split("&skip=")[0] + "&skip=%d" % (skip + page_size)
        return Resp(200, json.dumps(page).encode(), log)

    return transport


def client(page_size, drive=None, log=None, **kw):
    log = [] if log is None else log
    creds = EntraIDAppCredentials(tenant_id="t", client_id="c", client_secret="s")
    return SharePointRestClient(
        "https://h.example/sites/s", creds,
        request_func=make_transport(page_size, drive, log, **kw),
    )


def show(label, thunk):
    try:
        res = thunk()
        print(label, "->", [(m.id, m.get_full_path(), m.custom_fields) for m in res])
    except Exception as exc:  # noqa: BLE001
        print(label, "!!", type(exc).__name__, str(exc),
              getattr(exc, "status_code", "-"), getattr(exc, "url", "-"))


U = timezone.utc
FILTERS = {
    "none": FileFilter(),
    "created_after": FileFilter(created_after=datetime(2024, 1, 1, tzinfo=U)),
    "created_after_naive": FileFilter(created_after=datetime(2024, 1, 1)),
    "created_before": FileFilter(created_before=datetime(2024, 1, 1, tzinfo=U)),
    "created_window": FileFilter(created_after=datetime(2023, 12, 31, 23, 59, 59, 999999, tzinfo=U),
                                 created_before=datetime(2024, 1, 15, 10, 30, 0, 123000, tzinfo=U)),
    "modified_after": FileFilter(modified_after=datetime(2024, 1, 15, 10, 30, 0, 123456, tzinfo=U)),
    "modified_before": FileFilter(modified_before=datetime(2024, 1, 15, 10, 30, tzinfo=U)),
    "modified_tz": FileFilter(modified_after=datetime(2024, 3, 2, 1, 0, tzinfo=timezone(timedelta(hours=1)))),
    "both": FileFilter(created_after=datetime(2024, 1, 1, tzinfo=U), modified_before=datetime(2024, 2, 1, tzinfo=U)),
    "ext": FileFilter(extensions=[".pdf"]),
    "pattern": FileFilter(path_patterns=["Reports 2024/*"]),
    "folders": FileFilter(folder_paths=["/Reports 2024/", "Reports 2024/Äö #x", "Missing", "root.DOCX", "Empty"]),
    "folders_dates": FileFilter(folder_paths=["Reports 2024"], created_before=datetime(2024, 6, 1, tzinfo=U),
                                modified_after=datetime(2024, 1, 1, tzinfo=U)),
}

# direct predicate checks
metas = [
    SharePointFileMetadata(name="a.pdf", id="1", web_url="", created=c, last_modified=m, parent_path=p)
    for c, m, p in [
        (None, None, None), ("", "", "X"), ("2024-01-01T00:00:00Z", None, "X"),
        ("2024-01-01T00:00:00", "2024-01-01T00:00:00.5+01:00", None),
        ("bad", "2024-01-01", "Reports 2024"), ("2024-01-01T00:00:00.000001Z", "20240101", None),
    ]
]
for name, flt in sorted(FILTERS.items()):
    print("matches", name, [flt.matches(m) for m in metas])

for drive in (None, "DRV"):
    for ps in (1, 2, 100):
        log = []
        c = client(ps, drive, log)
        if drive is None:
            show("all ps=%d" % ps, lambda: c.list_all_files())
            show("all-noroot ps=%d" % ps, lambda: c.list_all_files(include_root_files=False))
        for name, flt in sorted(FILTERS.items()):
            show("filtered %s drive=%s ps=%d" % (name, drive, ps),
                 lambda: list(c.list_files_filtered(flt, drive_id=drive)))
        print("requests", len(log), log.count("close"), log[:12])

# URL builder directly
c = client(5)
for item_id in (None, "I 1", ""):
    for drive in (None, "D/2", ""):
        print("url", repr(item_id), repr(drive), c._build_children_url("S", item_id, drive))

# faults at every request index, then a healthy retry on the same client
for fault in ("http", "url", "json", "status"):
    for k in range(1, 12):
        log = []
        c = client(2, None, log, fault_at=k, fault=fault)
        show("fault %s@%d" % (fault, k), lambda: c.list_all_files())
        print("  closes", log.count("close"), "requests", len(log) - log.count("close"))
        show("  retry", lambda: c.list_all_files())
