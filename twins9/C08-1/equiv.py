import glob, io, os, struct, sys
sys.path.insert(0, os.getcwd())
from sharepoint2text.parsing.extractors.util import encryption as E
import olefile


def ole_with_streams(streams):
    """Build a minimal OLE2 (CFB v3) file with the given root-level streams (each padded to >= 4096 bytes)."""
    SECT = 512
    names = list(streams)
    datas = []
    for n in names:
        d = streams[n]
        if len(d) < 4096:
            d = d + b"\x00" * (4096 - len(d))
        if len(d) % SECT:
            d += b"\x00" * (SECT - len(d) % SECT)
        datas.append(d)
    ndir = (len(names) + 1 + 3) // 4
    # layout: sector 0 = FAT, 1..ndir = directory, then stream data
    fat = [0xFFFFFFFD]
    for i in range(ndir):
        fat.append(0xFFFFFFFE if i == ndir - 1 else len(fat) + 1)
    starts = []
    for d in datas:
        n = len(d) // SECT
        starts.append(len(fat))
        for i in range(n):
            fat.append(0xFFFFFFFE if i == n - 1 else len(fat) + 1)
    assert len(fat) <= 128
    fat += [0xFFFFFFFF] * (128 - len(fat))

    def dirent(name, typ, left, right, child, start, size):
        nm = name.encode("utf-16-le") + b"\x00\x00"
        e = nm + b"\x00" * (64 - len(nm)) + struct.pack("<H", len(nm)) + bytes([typ, 1])
        e += struct.pack("<III", left, right, child) + b"\x00" * 16 + b"\x00" * 4 + b"\x00" * 16
        e += struct.pack("<II", start, size) + b"\x00" * 4
        assert len(e) == 128
        return e

    NO = 0xFFFFFFFF
    # siblings as a right-leaning chain sorted by (len, upper name)
    order = sorted(range(len(names)), key=lambda i: (len(names[i]), names[i].upper()))
    entries = [None] * (len(names) + 1)
    entries[0] = dirent("Root Entry", 5, NO, NO, (order[0] + 1) if order else NO, 0xFFFFFFFE, 0)
    for pos, i in enumerate(order):
        right = order[pos + 1] + 1 if pos + 1 < len(order) else NO
        entries[i + 1] = dirent(names[i], 2, NO, right, NO, starts[i], len(streams[names[i]]) if len(streams[names[i]]) >= 4096 else 4096)
    dirdata = b"".join(entries)
    dirdata += (b"\x00" * 64 + struct.pack("<H", 0) + b"\x00\x00" + struct.pack("<III", NO, NO, NO) + b"\x00" * 52) * (ndir * 4 - len(entries))
    header = b"\xd0\xcf\x11\xe0\xa1\xb1\x1a\xe1" + b"\x00" * 16 + struct.pack("<HHHHH", 0x3E, 3, 0xFFFE, 9, 6) + b"\x00" * 6
    header += struct.pack("<IIIIIIIII", 0, 1, 1, 0, 4096, 0xFFFFFFFE, 0, 0xFFFFFFFE, 0)
    header += struct.pack("<I", 0) + b"\xff" * (4 * 108)
    assert len(header) == 512
    return header + struct.pack("<128I", *fat) + dirdata + b"".join(datas)


def rec(rid, payload=b""):
    return struct.pack("<HH", rid, len(payload)) + payload


BOF = rec(0x0809, b"\x00\x06\x05\x00" + b"\x00" * 12)
EOFR = rec(0x000A)
FILEPASS = rec(0x002F, b"\x01\x00" + b"\x00" * 52)
cases = {
    "plain": BOF + rec(0x0042, b"\xb0\x04") + EOFR,
    "filepass-2nd": BOF + FILEPASS + EOFR,
    "filepass-late": BOF + rec(0x0042, b"\xb0\x04") * 40 + FILEPASS + EOFR,
    "filepass-first": FILEPASS + BOF + EOFR,
    "filepass-inside-payload": BOF + rec(0x00FC, FILEPASS) + EOFR,
    "filepass-after-eof": BOF + EOFR + FILEPASS,
    "len-overruns": BOF + struct.pack("<HH", 0x0042, 60000) + FILEPASS,
    "empty": b"",
    "three-bytes": b"\x2f\x00\x00",
    "exact-header-only": struct.pack("<HH", 0x002F, 0),
    "filepass-truncated-header": BOF + b"\x2f\x00\x36",
    "big-stream-filepass": BOF + rec(0x0042, b"\xb0\x04") * 1200 + FILEPASS + EOFR,
}
for label, data in cases.items():
    print(label, "helper-level", end=" ")
    for stream in ("Workbook", "Book", "Other"):
        buf = io.BytesIO(ole_with_streams({stream: data}))
        buf.seek(7)
        try:
            res = E.is_xls_encrypted(buf)
            print(stream, res, buf.tell(), end=" ")
        except Exception as exc:  # noqa: BLE001
            print(stream, "EXC", type(exc).__name__, buf.tell(), end=" ")
    print()
# Workbook wins over Book
buf = io.BytesIO(ole_with_streams({"Workbook": cases["plain"], "Book": cases["filepass-2nd"]}))
print("both-streams", E.is_xls_encrypted(buf), buf.tell())
buf = io.BytesIO(ole_with_streams({"Book": cases["plain"], "Workbook": cases["filepass-2nd"]}))
print("both-streams-2", E.is_xls_encrypted(buf), buf.tell())
for label, raw in {"not-ole": b"hello world" * 100, "empty-file": b"", "zip": b"PK\x03\x04" + b"\x00" * 600}.items():
    buf = io.BytesIO(raw)
    buf.seek(min(3, len(raw)))
    try:
        print(label, E.is_xls_encrypted(buf), buf.tell())
    except Exception as exc:  # noqa: BLE001
        print(label, "EXC", type(exc).__name__)
# Fixtures shipped with the test-suite (read-only)
for path in sorted(glob.glob("sharepoint2text/tests/resources/**/*.xls", recursive=True)):
    with open(path, "rb") as fh:
        buf = io.BytesIO(fh.read())
    try:
        print(os.path.basename(path), E.is_xls_encrypted(buf), buf.tell())
    except Exception as exc:  # noqa: BLE001
        print(os.path.basename(path), "EXC", type(exc).__name__)
