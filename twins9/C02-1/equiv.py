import os, sys
sys.path.insert(0, os.getcwd())
from sharepoint2text.parsing.extractors.ms_legacy.xls_extractor import _format_sheet_as_text as f
cases = [
    ([], []), (["a"], []), ([], [["x"]]), ([], [[]]), ([], [[], []]),
    (["h1", "header2"], [["1", "2"], ["333333333", ""]]),
    (["h"], [["1", "2", "3"], []]),
    (["a", "b", "c"], [["x"], ["", "", "zzzz"], []]),
    ([], [["äö", "tab\tin"], ["multi\nline", " pad "]]),
    ([""], [[""]]),
    (["A"], [["%d" % i for i in range(j)] for j in range(6)]),
]
for i, (h, r) in enumerate(cases):
    try:
        print(i, repr(f(h, r)))
    except Exception as e:
        print(i, "EXC", type(e).__name__, e)
