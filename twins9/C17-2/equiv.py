import io
import os
import sys

sys.path.insert(0, os.getcwd())

from sharepoint2text.parsing.extractors.epub_extractor import _XhtmlTextExtractor
from sharepoint2text.parsing.extractors.html_extractor import html_to_text, read_html
from sharepoint2text.parsing.extractors.mhtml_extractor import read_mhtml

REMOVABLE = [
    "<script>var HID=1;</script>",
    "<style>.HID{}</style>",
    '<noscript><img src="HID.gif"></noscript>',
    "<noscript><img src='x'/><br>HID<input name=HID></noscript>",
    "<iframe src=x>HID</iframe>",
    "<object><param name=a value=HID><embed src=HID>HID</object>",
    "<embed src=HID>",
    "<embed src=HID/>",
    "<applet>HID<applet>HID</applet>HID</applet>",
    "<noscript>HID<script>HID</script>HID</noscript>",
    "<noscript>HID</p></div>HID</span></noscript>",
    "<object>HID<object>HID</object>HID</object>",
    "<!-- HID -->",
    "<!-- HID <script> -->",
    "<![CDATA[ HID ]]>",
    "<script>if (a<b) { document.write('<p>HID</p>'); }</script>",
    "<style><!-- HID --></style>",
    "<SCRIPT type='x'>HID</SCRIPT>",
    "<noscript>HID</NOSCRIPT>",
    "<iframe/>",
    "<script/>HID</script>",
    "<noscript><noscript>HID</noscript>",
    "</script>",
    "</noscript></object>",
    "<object><table><tr><td>HID</td></tr></table></object>",
]

TEMPLATES = [
    "<html><head><title>T</title></head><body><p>before</p>%s<p>after</p></body></html>",
    "<html><body><div>before %s after</div><table><tr><td>c1</td><td>%s c2</td></tr></table><p>end</p></body></html>",
    "<p>before<ul><li>one%s<li>two</ul>after",
    "<table><tr><td>a%s</td><td>b</td></tr><tr><td><table><tr><td>in%s</td></tr></table></td></tr></table>tail",
]


def run(label, thunk):
    try:
        print(label, "->", ascii(thunk()))
    except Exception as exc:  # noqa: BLE001
        print(label, "!!", type(exc).__name__, ascii(str(exc)))


def via_read_html(doc):
    res = list(read_html(io.BytesIO(doc.encode("utf-8"))))
    return [(c.get_full_text(), c.tables, c.metadata.title) for c in res]


def via_epub_chapter(doc):
    parser = _XhtmlTextExtractor()
    parser.feed(doc)
    parser.close()
    return (parser.get_text(), parser.get_title(), parser.get_tables(), parser.skip_depth, parser._skip_tag)


def via_mhtml(doc):
    raw = (
        "MIME-Version: 1.0\r\n"
        'Content-Type: multipart/related; boundary="B"; type="text/html"\r\n\r\n'
        "--B\r\nContent-Type: text/html; charset=\"utf-8\"\r\n"
        "Content-Transfer-Encoding: 8bit\r\nContent-Location: http://x/\r\n\r\n"
        + doc + "\r\n--B--\r\n"
    )
    res = list(read_mhtml(io.BytesIO(raw.encode("utf-8"))))
    return [c.get_full_text() for c in res]


n = 0
for ti, tpl in enumerate(TEMPLATES):
    for ri, rem in enumerate(REMOVABLE):
        doc = tpl.replace("%s", rem)
        n += 1
        run("html %d/%d" % (ti, ri), lambda: via_read_html(doc))
        run("text %d/%d" % (ti, ri), lambda: html_to_text(doc))
        run("epub %d/%d" % (ti, ri), lambda: via_epub_chapter(doc))
        if ti == 0:
            run("mhtml %d/%d" % (ti, ri), lambda: via_mhtml(doc))

# two removable elements in a row / unterminated at EOF
for doc in [
    "<p>a</p><noscript><img></noscript><script>HID</script><p>b</p>",
    "<p>a</p><noscript>HID",
    "<p>a</p><object>HID<p>HID</p>",
    "<title>Ti<script>HID</script>tle</title><p>x</p>",
    "",
    "plain",
]:
    run("extra html", lambda: via_read_html(doc))
    run("extra text", lambda: html_to_text(doc))
    run("extra epub", lambda: via_epub_chapter(doc))
print("cases", n)
