import os, sys, io
sys.path.insert(0, os.getcwd())
from sharepoint2text.parsing.extractors.html_extractor import read_html

def doc(head, body="<p>x</p>", html_attrs=""):
    return ("<html%s><head>%s</head><body>%s</body></html>" % (html_attrs, head, body)).encode("utf-8")
cases = [
    doc(""), b"", b"plain text no tags",
    doc('<title> T </title><meta name="description" content="D"><meta name="keywords" content="k1, k2"><meta name="author" content="A">'),
    doc('<meta name="Description" content="first"><meta name="DESCRIPTION" content=""><meta name="description">'),
    doc('<meta name="author" content="A1"><meta name="author" content="A2"><meta name="author" content="">'),
    doc('<meta name="keywords" content=""><meta name="keywords" content=" ">'),
    doc('<meta content="orphan"><meta name="" content="c"><meta name="generator" content="g"><meta name="viewport" content="v">'),
    doc('<meta charset="latin-1"><meta http-equiv="Content-Type" content="text/html; charset=utf-8"><meta name="author" content="äö \U0001F600">'),
    doc('<meta http-equiv="content-type" content=""><meta http-equiv="content-type" name="description" content="text/html; charset=KOI8-R">'),
    doc('<meta name="description" content="&amp; &lt;b&gt; &quot;q&quot;">', html_attrs=' lang="de"'),
    doc('', body='<meta name="author" content="in body"><p>t</p>'),
    doc('<meta name=author content=unquoted><meta name=\'keywords\' content=\'single\'>'),
    doc('<meta name="description" content="d" /><meta name="description" content="d2"/>', html_attrs=' lang=""'),
]
for i, c in enumerate(cases):
    for path in (None, "dir/page.html"):
        try:
            res = list(read_html(io.BytesIO(c), path))
            for r in res:
                m = r.get_metadata()
                print(i, path, (m.title, m.language, m.charset, m.description, m.keywords, m.author, m.filename, m.file_extension), repr(r.get_full_text()))
        except Exception as e:
            print(i, path, "EXC", type(e).__name__, e)
