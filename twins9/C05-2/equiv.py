import io, json, os, sys, typing
from typing import Any, Dict, List, Optional, Union
sys.path.insert(0, os.getcwd())
from sharepoint2text.parsing.extractors import serialization as S
from sharepoint2text.parsing.extractors import data_types as D

types = [
    int, str, bytes, io.BytesIO, Any, None, type(None),
    Optional[int], Optional[bytes], Optional[io.BytesIO], Optional[List[int]], Optional[Dict[str, Any]],
    Union[int, str], Union[int, str, None], Union[None, int], Union[int, None, None],
    int | None, None | bytes, int | str | None, int | str,
    List[Optional[bytes]], Dict[str, Optional[io.BytesIO]], list[bytes], dict[str, bytes], list, dict, List, Dict,
    Optional[D.ImageMetadata], D.TableData | None, Optional[Optional[str]], typing.Tuple[int, None], "ForwardRef", 42,
]
for tp in types:
    try:
        print("unwrap", repr(tp), "->", repr(S._unwrap_optional(tp)))
    except Exception as exc:  # noqa: BLE001
        print("unwrap", repr(tp), "EXC", type(exc).__name__)

values = [None, "QUJD", {"_bytes": "QUJD"}, {"_bytesio": "QUJD"}, {"_type": "TableData", "data": [["_type"]]},
          {"_type": "ImageMetadata", "unit_index": 2}, [1, "QUJD", {"_bytes": "eA=="}], {"k": {"_bytes": "eA=="}, "_type": "x"}, 5, {"a": 1}]


def norm(v):
    if isinstance(v, io.BytesIO):
        return ("BytesIO", v.getvalue())
    if isinstance(v, list):
        return [norm(x) for x in v]
    if isinstance(v, dict):
        return {k: norm(x) for k, x in v.items()}
    if hasattr(v, "__dataclass_fields__"):
        return (type(v).__name__, json.dumps(S.serialize_extraction(v), sort_keys=True))
    return v


for tp in types:
    for v in values:
        try:
            print("deser", repr(tp), repr(v)[:40], "->", repr(norm(S._deserialize_value(v, tp))))
        except Exception as exc:  # noqa: BLE001
            print("deser", repr(tp), repr(v)[:40], "EXC", type(exc).__name__)

for name in sorted(S._get_type_registry()):
    cls = S._get_type_registry()[name]
    try:
        hints = S._get_field_types(cls)
        print("hints", name, sorted((k, repr(v)) for k, v in hints.items()))
    except Exception as exc:  # noqa: BLE001
        print("hints", name, "EXC", type(exc).__name__)
