import io, os, sys, zipfile

sys.path.insert(0, os.getcwd())

from sharepoint2text.parsing.extractors.util.zip_bomb import (
    ZipBombLimits,
    open_zipfile,
    validate_zip_bytesio,
    validate_zipfile,
)

LIMITS = ZipBombLimits(
    max_entries=4,
    max_total_uncompressed_bytes=1000,
    max_single_uncompressed_bytes=600,
    max_total_compression_ratio=20.0,
    max_entry_compression_ratio=50.0,
)


class FakeZip:
    def __init__(self, infos, fail=None):
        self._infos, self._fail = infos, fail

    def infolist(self):
        if self._fail:
            raise self._fail
        return self._infos


class Bare:
    """An entry object without size attributes."""

    def __init__(self, filename, **kw):
        self.filename = filename
        self.__dict__.update(kw)


def info(name, file_size, compress_size):
    zi = zipfile.ZipInfo(name)
    zi.file_size = file_size
    zi.compress_size = compress_size
    return zi


def check(label, infos, limits=LIMITS, source=None, fail=None):
    try:
        validate_zipfile(FakeZip(infos, fail), limits=limits, source=source)
        print(label, "-> accepted")
    except Exception as exc:  # noqa: BLE001
        print(label, "->", type(exc).__name__, str(exc), "| cause", type(exc.__cause__).__name__)


check("empty", [])
check("infolist fails", [], fail=RuntimeError("boom"))
for n in (3, 4, 5):
    check(f"{n} entries", [info(f"f{i}", 10, 10) for i in range(n)], source="S")
check("5 entries, 2 dirs", [info("d/", 0, 0), info("e/", 0, 0)] + [info(f"f{i}", 1, 1) for i in range(3)])
for size in (599, 600, 601):
    check(f"single {size}", [info("a", size, size)], source="src")
for total in (999, 1000, 1001):
    check(f"total {total}", [info("a", 500, 500), info("b", total - 500, total - 500)])
for comp in (11, 10, 9):
    check(f"entry ratio 500/{comp}", [info("a", 500, comp), info("b", 400, 400)], source="r")
check("entry ratio just above via float", [info("a", 501, 10), info("b", 400, 400)])
for comp in (26, 25, 24):
    check(f"total ratio 500/{comp}", [info("a", 250, comp - 13), info("b", 250, 13)])
check("zero compressed, non-empty", [info("a", 5, 0)], source="z")
check("negative compressed", [info("a", 5, -3)])
check("zero both", [info("a", 0, 0)])
check("empty file with compressed bytes", [info("a", 0, 2), info("b", 10, 10)])
check("only empty files with compressed bytes", [info("a", 0, 2)])
check("directory with sizes is ignored", [info("d/", 10**9, 0)])
check("sizes None", [Bare("a", file_size=None, compress_size=None)])
check("sizes missing", [Bare("a")])
check("file size missing, compressed given", [Bare("a", compress_size=7)])
check("compressed missing", [Bare("a", file_size=7)], source="m")
check("sizes as strings", [Bare("a", file_size="12", compress_size="6")])
check("sizes as floats", [Bare("a", file_size=12.9, compress_size=6.9)])
check("file size not a number", [Bare("a", file_size="x", compress_size="y")])
check("compressed not a number", [Bare("a", file_size=3, compress_size="y")])
check("bare dir by name", [Bare("d/", file_size=10**9)])
check("order: single before ratio", [info("a", 601, 1)])
check("order: ratio before total", [info("a", 400, 400), info("b", 600, 1)])
check("order: first offender wins", [info("a", 5, 0), info("b", 601, 601)])
check("defaults accept", [info("a", 10**6, 10**4)], limits=ZipBombLimits())
check("defaults reject", [info("a", 10**6, 10**3)], limits=ZipBombLimits())

buf = io.BytesIO()
with zipfile.ZipFile(buf, "w", zipfile.ZIP_DEFLATED) as zf:
    zf.writestr("a.txt", "a" * 100000)
    zf.writestr("b.txt", "hello")
    zf.writestr("d/", "")
for lim in (ZipBombLimits(), LIMITS, ZipBombLimits(max_entry_compression_ratio=10.0)):
    stream = io.BytesIO(buf.getvalue())
    stream.seek(17)
    try:
        validate_zip_bytesio(stream, limits=lim, source="bytesio")
        print("bytesio accepted", stream.tell())
    except Exception as exc:  # noqa: BLE001
        print("bytesio", type(exc).__name__, exc, stream.tell())
    try:
        with open_zipfile(io.BytesIO(buf.getvalue()), limits=lim) as z:
            print("open ok", z.namelist())
    except Exception as exc:  # noqa: BLE001
        print("open", type(exc).__name__, exc)
