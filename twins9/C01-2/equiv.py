import os, sys, io, zipfile, tarfile, logging
sys.path.insert(0, os.getcwd())
from sharepoint2text.parsing.extractors import archive_extractor as A

logging.basicConfig(stream=sys.stdout, level=logging.WARNING, format="LOG %(levelname)s %(message)s")
names = ["a.txt", ".hidden.txt", "__MACOSX/a.txt", "__MACOSX/._a.txt", "dir/inner.ZIP", "x.tar.gz", "x.TGZ", "x.tar.bz2",
         "x.tbz2", "x.tar.xz", "x.txz", "x.tar", "x.taz", "x.tz", "x.7z", "x.rar", "zip", ".zip", "a.zip.txt", "a.txt.zip",
         "photo.png", "doc.docx", "noext", "", "sub/", "ünï.md", "a.gz", "a.bz2", "a.xz", "a.tar.gz.md", "A.TAR.GZ "]
for n in names:
    base = n.rsplit("/", 1)[-1]
    try:
        print(repr(n), A._should_skip_file(n, base))
    except Exception as e:
        print(repr(n), "EXC", type(e).__name__, e)

def zip_of(members):
    b = io.BytesIO()
    with zipfile.ZipFile(b, "w") as z:
        for n, d in members:
            z.writestr(n, d)
    return b.getvalue()
def tar_of(members):
    b = io.BytesIO()
    with tarfile.open(fileobj=b, mode="w") as t:
        for n, d in members:
            ti = tarfile.TarInfo(n); ti.size = len(d); t.addfile(ti, io.BytesIO(d))
    return b.getvalue()
members = [("a.txt", b"alpha"), ("inner.zip", zip_of([("deep.txt", b"deep")])), ("n/x.tar.gz", b"\x1f\x8bjunk"),
           ("bad.docx", b"not a zip"), (".hid.txt", b"h"), ("__MACOSX/m.txt", b"m"), ("z.taz", b"zz"), ("b.md", b"# beta"),
           ("bad.pdf", b"%PDF-1.4 broken"), ("e.json", b"{}")]
for label, data, path in [("zip", zip_of(members), "arch.zip"), ("tar", tar_of(members), "arch.tar"), ("zip-nopath", zip_of(members), None),
                          ("garbage", b"PK\x03\x04 not really", "g.zip"), ("empty", b"", "e.zip")]:
    try:
        res = list(A.read_archive(io.BytesIO(data), path))
        print(label, [(type(r).__name__, r.get_metadata().filename, r.get_metadata().file_path, r.get_full_text()) for r in res])
    except Exception as e:
        print(label, "EXC", type(e).__name__, e)
