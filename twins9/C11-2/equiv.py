import io, os, sys, zipfile

sys.path.insert(0, os.getcwd())

import olefile
from sharepoint2text.parsing.extractors.util.encryption import (
    _has_ole_encryption_stream,
    is_odf_encrypted,
    is_ooxml_encrypted,
)
from sharepoint2text.parsing.extractors.ms_modern.xlsx_extractor import read_xlsx

RES = os.path.join(os.getcwd(), "sharepoint2text", "tests", "resources")


def zip_bytes(members, comp=zipfile.ZIP_DEFLATED):
    buf = io.BytesIO()
    with zipfile.ZipFile(buf, "w", comp) as zf:
        for n, d in members:
            zf.writestr(n, d)
    return buf.getvalue()


def ole_samples():
    found = []
    for base, _d, files in sorted(os.walk(RES)):
        for f in sorted(files):
            p = os.path.join(base, f)
            with open(p, "rb") as fh:
                head = fh.read(8)
            if head == b"\xd0\xcf\x11\xe0\xa1\xb1\x1a\xe1":
                found.append(p)
    return found[:8]


class Tracked(io.BytesIO):
    """BytesIO that records the seek calls made on it."""

    def __init__(self, data):
        super().__init__(data)
        self.seeks = []

    def seek(self, pos, whence=0):
        self.seeks.append((pos, whence))
        return super().seek(pos, whence)


def probe(label, data, start=0):
    stream = Tracked(data)
    stream.seek(start)
    stream.seeks.clear()
    try:
        result = is_ooxml_encrypted(stream)
    except Exception as exc:  # noqa: BLE001
        result = (type(exc).__name__, str(exc))
    print(label, "->", result, "| position", stream.tell(), "| closed", stream.closed, "| seeks to 0:",
          stream.seeks.count((0, 0)), "| first", stream.seeks[:1], "| last", stream.seeks[-1:])


probe("empty", b"")
probe("short", b"\xd0\xcf")
probe("ole magic only", b"\xd0\xcf\x11\xe0\xa1\xb1\x1a\xe1")
probe("ole magic, garbage body", b"\xd0\xcf\x11\xe0\xa1\xb1\x1a\xe1" + b"\x00" * 2000)
probe("ole magic, random body", b"\xd0\xcf\x11\xe0\xa1\xb1\x1a\xe1" + bytes(range(256)) * 8)
probe("plain zip", zip_bytes([("a.txt", "hello")]), start=7)
probe("text", b"just some text" * 100, start=3)
for p in ole_samples():
    with open(p, "rb") as fh:
        data = fh.read()
    probe("ole file " + os.path.relpath(p, RES), data, start=11)
    with olefile.OleFileIO(io.BytesIO(data)) as ole:
        print("   encryption stream:", _has_ole_encryption_stream(ole))

# the guard still runs, after the encryption probe, when a workbook is read
bomb = zip_bytes([("[Content_Types].xml", "<Types/>"), ("xl/workbook.xml", "a" * 2000000)])
for label, data in (("bomb-like xlsx", bomb), ("not a zip", b"nothing"), ("ole garbage", b"\xd0\xcf\x11\xe0\xa1\xb1\x1a\xe1" + b"\0" * 600)):
    try:
        out = [type(r).__name__ for r in read_xlsx(io.BytesIO(data), "x.xlsx")]
    except Exception as exc:  # noqa: BLE001
        out = (type(exc).__name__, str(exc)[:120], type(exc.__cause__).__name__)
    print("read_xlsx", label, "->", out)
for label, data in (("odf plain zip", zip_bytes([("a.txt", "x")])), ("odf not zip", b"zzz")):
    s = io.BytesIO(data)
    print("is_odf_encrypted", label, is_odf_encrypted(s), s.tell())
