import os, sys, hashlib
sys.path.insert(0, os.getcwd())
from sharepoint2text.parsing.extractors.pdf import _pypdf_aes_fallback as m

KEYS = [
    bytes(16), bytes(range(16)), bytes(range(24)), bytes(range(32)), b"\xff" * 16, b"\xff" * 32,
    bytes.fromhex("2b7e151628aed2a6abf7158809cf4f3c"),                      # FIPS-197 A.1
    bytes.fromhex("8e73b0f7da0e6452c810f32b809079e562f8ead2522c6b7b"),      # FIPS-197 A.2
    bytes.fromhex("603deb1015ca71be2b73aef0857d77811f352c073b6108d72d9810a30914dff4"),  # A.3
    b"", b"short", bytes(15), bytes(17), bytes(33), bytearray(range(16)),
]
m._ROUND_KEY_CACHE.clear()
for k in KEYS:
    try:
        rk = m._expand_key(bytes(k) if isinstance(k, bytearray) else k)
        print("expand", len(k), len(rk), [len(x) for x in rk] == [16] * len(rk), all(type(x) is bytes for x in rk), b"".join(rk).hex())
    except Exception as e:
        print("expand", len(k), "EXC", type(e).__name__, e)
for k in KEYS:
    try:
        a = m._get_round_keys(bytes(k)); b = m._get_round_keys(bytes(k))
        print("cached", len(k), a is b, hashlib.sha256(b"".join(a)).hexdigest()[:16], [x.hex()[:8] for x in m._ROUND_KEY_CACHE])
    except Exception as e:
        print("cached", len(k), "EXC", type(e).__name__, [x.hex()[:8] for x in m._ROUND_KEY_CACHE])
pt = bytes(range(16)) * 3 + b"tail-of-16-bytes"
for k in KEYS[:9]:
    ct = m.aes_cbc_encrypt(k, bytes(16), pt)
    print("cbc", len(k), ct.hex()[:48], m.aes_cbc_decrypt(k, bytes(16), ct) == pt, m.aes_ecb_decrypt(k, m.aes_ecb_encrypt(k, pt)) == pt)
print("final cache", [x.hex()[:8] for x in m._ROUND_KEY_CACHE])
