import os, sys
sys.path.insert(0, os.getcwd())
import xml.etree.ElementTree as ET
from sharepoint2text.parsing.extractors.ms_modern import pptx_extractor as m

A = "http://schemas.openxmlformats.org/drawingml/2006/main"
P = "http://schemas.openxmlformats.org/presentationml/2006/main"
URI = "http://schemas.openxmlformats.org/drawingml/2006/table"

def frame(inner, uri=URI, wrap=True):
    gd = f'<a:graphicData uri="{uri}">{inner}</a:graphicData>' if wrap else inner
    return ET.fromstring(f'<p:graphicFrame xmlns:a="{A}" xmlns:p="{P}"><a:graphic>{gd}</a:graphic></p:graphicFrame>')

def tc(*paras, body=True):
    if not body:
        return "<a:tc><a:tcPr/></a:tc>"
    ps = "".join(f"<a:p>{p}</a:p>" for p in paras)
    return f"<a:tc><a:txBody><a:bodyPr/>{ps}</a:txBody></a:tc>"

def r(t):
    return f"<a:r><a:t>{t}</a:t></a:r>"

def tr(*cells):
    return "<a:tr>" + "".join(cells) + "</a:tr>"

def tbl(*rows):
    return "<a:tbl><a:tblGrid/>" + "".join(rows) + "</a:tbl>"

CASES = [
    frame("", wrap=False),
    frame(tbl(tr(tc(r("x")))), uri="http://example.com/chart"),
    frame(""),
    frame(tbl()),
    frame(tbl(tr())),
    frame(tbl(tr(tc(r("a"))))),
    frame(tbl(tr(tc(r("a"), r("b")), tc()), tr(tc(body=False), tc(r("  padded  "))))),
    frame(tbl(tr(tc(r("1")), tc(r("2")), tc(r("3"))), tr(tc(r("4"))), tr(), tr(tc(r("5")), tc(r("6"))))),
    frame(tbl(tr(tc(r("a") + "<a:br/>" + r("b"))), tr(tc("<a:fld><a:t>fld</a:t></a:fld>" + r(" tail"))))),
    frame(tbl(tr(tc(r("")), tc("<a:r><a:t/></a:r>"), tc("<a:t>direct</a:t>")))),
    frame(tbl(tr(tc(r("outer")))) + tbl(tr(tc(r("second table ignored"))))),
    frame(tbl(tr("<a:other/>", tc(r("after foreign"))), "<a:foreignRow/>")),
    frame(tbl(tr(tc(r("\n lead"), r("trail \t"))))),
]
for i, c in enumerate(CASES):
    try:
        print(i, repr(m._extract_table_from_graphic_frame(c)))
    except Exception as e:
        print(i, "EXC", type(e).__name__)
