import io, os, re, sys, logging, tempfile, shutil

sys.path.insert(0, os.getcwd())


class _Capture(logging.Handler):
    def __init__(self):
        super().__init__(level=logging.WARNING)
        self.lines = []

    def emit(self, record):
        self.lines.append(f"{record.levelname}:{record.name}:{record.getMessage()}")


CAPTURE = _Capture()
_root_logger = logging.getLogger()
_root_logger.handlers[:] = [CAPTURE]
_root_logger.setLevel(logging.WARNING)


def drain_log():
    out, CAPTURE.lines = CAPTURE.lines, []
    return out

# ---- minimal independent 7z writer (in memory) ------------------------------
import lzma as _lzma, struct as _struct, zlib as _zlib


def _num(v):
    for extra in range(8):
        if v < (1 << (8 * extra + 7 - extra)):
            first = ((0xFF << (8 - extra)) & 0xFF) | (v >> (8 * extra))
            return bytes([first]) + (v & ((1 << (8 * extra)) - 1)).to_bytes(extra, "little")
    return b"\xff" + v.to_bytes(8, "little")


def _bits(flags):
    out = bytearray()
    cur, mask = 0, 0x80
    for f in flags:
        if f:
            cur |= mask
        mask >>= 1
        if mask == 0:
            out.append(cur)
            cur, mask = 0, 0x80
    if mask != 0x80:
        out.append(cur)
    return bytes(out)


def _pack(method, data):
    if method == "copy":
        return data, b"\x01\x00"
    if method == "lzma":
        raw = _lzma.compress(data, format=_lzma.FORMAT_ALONE,
                             filters=[{"id": _lzma.FILTER_LZMA1, "preset": 6}])
        return raw[13:], b"\x23\x03\x01\x01" + _num(5) + raw[:5]
    if method == "lzma2":
        raw = _lzma.compress(data, format=_lzma.FORMAT_RAW,
                             filters=[{"id": _lzma.FILTER_LZMA2, "dict_size": 1 << 20}])
        return raw, b"\x21\x21" + _num(1) + bytes([18])
    raise ValueError(method)


def make_7z(entries, method="copy", solid=True, tamper=None, attrs=None, attr_ext=True,
            substreams=True, counts=None):
    """entries: list of (name, data) ; data None = directory, b'' = empty file.

    solid: True = one folder, False = one folder per file, n = folders of n files."""
    with_data = [(n, d) for n, d in entries if d]
    chunk = (len(with_data) or 1) if solid is True else (1 if solid is False else solid)
    groups = [with_data[i:i + chunk] for i in range(0, len(with_data), chunk)]
    packed, folders, unpack = [], [], []
    for g in groups:
        blob = b"".join(d for _, d in g)
        p, coder = _pack(method, blob)
        packed.append(p)
        folders.append(b"\x01" + coder)
        unpack.append(len(blob))
    if tamper:
        packed = tamper(packed)
    h = bytearray(b"\x01")
    if groups:
        h += b"\x04"
        h += b"\x06" + _num(0) + _num(len(packed)) + b"\x09" + b"".join(_num(len(p)) for p in packed) + b"\x00"
        h += b"\x07\x0b" + _num(len(folders)) + b"\x00" + b"".join(folders)
        h += b"\x0c" + b"".join(_num(u) for u in unpack) + b"\x00"
        if substreams:
            h += b"\x08\x0d" + b"".join(_num(c) for c in (counts or [len(g) for g in groups]))
            if counts:
                flat = [len(d) for _, d in with_data] + [1] * sum(counts)
                sizes = b"".join(_num(flat.pop(0)) for c in counts for _ in range(max(c - 1, 0)))
            else:
                sizes = b"".join(_num(len(d)) for g in groups for _, d in g[:-1])
            if sizes:
                h += b"\x09" + sizes
            h += b"\x00"
        h += b"\x00"
    h += b"\x05" + _num(len(entries))
    empty_stream = [not d for _, d in entries]
    if any(empty_stream):
        v = _bits(empty_stream)
        h += b"\x0e" + _num(len(v)) + v
        ef = _bits([d is not None for _, d in entries if not d])
        h += b"\x0f" + _num(len(ef)) + ef
    names = b"\x00" + b"".join(n.encode("utf-16-le") + b"\x00\x00" for n, _ in entries)
    h += b"\x11" + _num(len(names)) + names
    if attrs is not None:
        a = b"\x01" + (b"\x00" if attr_ext else b"") + b"".join(_struct.pack("<I", x) for x in attrs)
        h += b"\x15" + _num(len(a)) + a
    h += b"\x00\x00"
    body = b"".join(packed)
    start = _struct.pack("<QQI", len(body), len(h), _zlib.crc32(bytes(h)) & 0xFFFFFFFF)
    return (b"7z\xbc\xaf\x27\x1c\x00\x04" + _struct.pack("<I", _zlib.crc32(start) & 0xFFFFFFFF)
            + start + body + bytes(h))
ROOT = tempfile.mkdtemp(prefix="t9eq")
tempfile.tempdir = ROOT


def show(value):
    text = repr(value).replace(ROOT, "<ROOT>")
    return re.sub(r"<ROOT>/tmp[a-z0-9_]{8}", "<ROOT>/<TMP>", text)


def run_archive(label, blob, name="m.7z"):
    from sharepoint2text.parsing.extractors.archive_extractor import read_archive
    print("==", label)
    try:
        res = [(r.get_metadata().filename, r.get_metadata().file_path, r.get_full_text()[:40])
               for r in read_archive(io.BytesIO(blob), name)]
    except Exception as exc:  # noqa: BLE001
        res = (type(exc).__name__, str(exc))
    print("   read_archive", show(res))
    for line in drain_log():
        print("   log", show(line))


def finish():
    print("left in temp root:", sorted(os.listdir(ROOT)))
    shutil.rmtree(ROOT)

import hashlib
from sharepoint2text.parsing.extractors.util.sevenzip import SevenZipReader

reader = SevenZipReader.__new__(SevenZipReader)
PLAIN = (b"The quick brown fox. " * 400) + bytes(range(256)) * 4
RAW = _lzma.compress(PLAIN, format=_lzma.FORMAT_RAW, filters=[{"id": _lzma.FILTER_LZMA2, "dict_size": 4096}])


_REAL_DECOMPRESSOR = _lzma.LZMADecompressor
SEEN = []


def _recording_decompressor(*args, **kwargs):
    SEEN.append(sorted((k, v) for k, v in kwargs.items()))
    return _REAL_DECOMPRESSOR(*args, **kwargs)


_lzma.LZMADecompressor = _recording_decompressor


def lzma2(label, data, props, sizes):
    del SEEN[:]
    try:
        _lzma2(label, data, props, sizes)
    finally:
        print("     decoder built with", SEEN)


def _lzma2(label, data, props, sizes):
    try:
        out = reader._decompress_lzma2(data, props, sizes)
        print(label, "->", len(out), hashlib.sha1(out).hexdigest()[:12])
    except Exception as exc:  # noqa: BLE001
        print(label, "->", type(exc).__name__, exc)


# every dictionary-size code that does not ask for a huge dictionary, and the
# codes at and above the 40 boundary
for prop in list(range(0, 34)) + [39 - 3, 40, 41, 100, 255]:
    lzma2(f"prop {prop}", RAW, bytes([prop]), [len(PLAIN)])
lzma2("no properties", RAW, None, [len(PLAIN)])
lzma2("empty properties", RAW, b"", [len(PLAIN)])
lzma2("two property bytes", RAW, bytes([18, 99]), [len(PLAIN)])
lzma2("limit below size", RAW, bytes([18]), [100])
lzma2("limit zero", RAW, bytes([18]), [0])
lzma2("no sizes", RAW, bytes([18]), [])
lzma2("sizes None", RAW, bytes([18]), None)
lzma2("two coder sizes", RAW, bytes([18]), [5, 300])
lzma2("garbage", b"\xff" * 40, bytes([18]), [40])
lzma2("empty data", b"", bytes([18]), [0])
lzma2("truncated", RAW[: len(RAW) // 2], bytes([18]), [len(PLAIN)])
lzma2("garbage prop 40", b"\xff" * 40, bytes([40]), [40])

DOCS = [("a.txt", b"alpha " * 300), ("b.md", b"# beta"), ("z.txt", b""), ("c.csv", b"x,y\n1,2\n")]
for solid in (True, False, 2):
    run_archive(f"lzma2 archive solid={solid}", make_7z(DOCS, "lzma2", solid))
# same archive with the property byte patched to other dictionary codes
blob = make_7z(DOCS, "lzma2", True)
marker = b"\x21\x21\x01\x12"
assert blob.count(marker) == 1
for prop in (0, 1, 24, 40, 200):
    patched = blob.replace(marker, marker[:3] + bytes([prop]))
    # the header CRC no longer matches: report whatever the reader says
    run_archive(f"patched property byte {prop}", patched)
finish()
