import os, sys, email, email.policy, base64, quopri
sys.path.insert(0, os.getcwd())
from sharepoint2text.parsing.extractors.mail import mbox_email_extractor as m


def single(ctype, body, cte=None, extra=b""):
    h = b"From: a@x.org\r\nSubject: s\r\nMIME-Version: 1.0\r\nContent-Type: " + ctype + b"\r\n"
    if cte:
        h += b"Content-Transfer-Encoding: " + cte + b"\r\n"
    return h + extra + b"\r\n" + body


def multi(kind, parts, boundary=b"BB"):
    out = b"From: a@x.org\r\nMIME-Version: 1.0\r\nContent-Type: multipart/" + kind.encode() + b'; boundary="' + boundary + b'"\r\n\r\npreamble\r\n'
    for p in parts:
        out += b"--" + boundary + b"\r\n" + p + b"\r\n"
    return out + b"--" + boundary + b"--\r\n"


def part(ctype, body, cte=None, disp=None):
    h = b"Content-Type: " + ctype + b"\r\n"
    if cte:
        h += b"Content-Transfer-Encoding: " + cte + b"\r\n"
    if disp:
        h += b"Content-Disposition: " + disp + b"\r\n"
    return h + b"\r\n" + body


b64 = lambda b: base64.encodebytes(b).replace(b"\n", b"\r\n")
inner = multi("alternative", [part(b"text/plain", b"inner plain"), part(b"text/html", b"<p>inner html</p>")], b"II")
inner_part = inner.split(b"MIME-Version: 1.0\r\n", 1)[1]
CASES = {
    "plain_ascii": single(b"text/plain", b"hello\r\nworld\r\n"),
    "plain_empty": single(b"text/plain", b""),
    "html_single": single(b"text/html; charset=utf-8", "<p>grüß</p>".encode()),
    "latin1_qp": single(b"text/plain; charset=iso-8859-1", quopri.encodestring("café = ok".encode("latin-1")), b"quoted-printable"),
    "utf8_b64": single(b'text/plain; charset="UTF-8"', b64("日本語 \U0001f600".encode()), b"base64"),
    "unknown_charset": single(b"text/plain; charset=x-nonexistent", b"caf\xc3\xa9 \xff"),
    "bad_bytes_ascii": single(b"text/plain; charset=us-ascii", b"abc \xe9\xff def"),
    "utf7_surrogate": single(b"text/plain; charset=utf-7", b"+2AA-"),
    "utf8sig_only_bom": single(b"text/plain; charset=utf-8-sig", b64(b"\xef\xbb\xbf"), b"base64"),
    "other_type_single": single(b"application/json", b'{"a": 1}'),
    "no_ctype": b"From: a@x.org\r\n\r\nbare body\r\n",
    "alt": multi("alternative", [part(b"text/plain; charset=utf-8", "pläin".encode()), part(b"text/html; charset=iso-8859-1", "<b>hä</b>".encode("latin-1"))]),
    "mixed_attach": multi("mixed", [part(b"text/plain", b"body"), part(b"text/plain", b"attached text", None, b'attachment; filename="a.txt"'), part(b"application/pdf", b64(b"%PDF-1.4"), b"base64", b"attachment")]),
    "several_inline": multi("mixed", [part(b"text/plain", b"one"), part(b"image/png", b64(b"\x89PNG"), b"base64", b"inline"), part(b"text/plain", b"two"), part(b"text/html", b"<i>h1</i>"), part(b"text/html", b"<i>h2</i>")]),
    "empty_then_text": multi("mixed", [part(b"text/plain", b""), part(b"text/plain", b"after empty"), part(b"text/html; charset=utf-8-sig", b64(b"\xef\xbb\xbf"), b"base64"), part(b"text/html", b"<p>x</p>")]),
    "bom_after_text": multi("mixed", [part(b"text/plain", b"first"), part(b"text/plain; charset=utf-8-sig", b64(b"\xef\xbb\xbf"), b"base64")]),
    "nested": multi("mixed", [inner_part, part(b"text/plain", b"outer tail")]),
    "unknown_charset_multi": multi("alternative", [part(b"text/plain; charset=klingon", b"tlh \xc3\xa4"), part(b"text/html; charset=klingon", b"<p>\xe4</p>")]),
    "inline_disp": multi("mixed", [part(b"text/plain", b"inline text", None, b"inline")]),
    "no_text": multi("mixed", [part(b"application/octet-stream", b64(b"\0\1\2"), b"base64")]),
    "broken_b64": single(b"text/plain", b"!!!not base64!!!", b"base64"),
}
for name, raw in CASES.items():
    for label, msg in (("compat32", email.message_from_bytes(raw)), ("default", email.message_from_bytes(raw, policy=email.policy.default))):
        try:
            print(name, label, repr(m.get_body_content(msg)))
        except Exception as e:
            print(name, label, "EXC", type(e).__name__)
    try:
        c = m.parse_email_message(email.message_from_bytes(raw))
        print(name, "parsed", repr((c.body_plain, c.body_html, len(c.attachments))))
    except Exception as e:
        print(name, "parsed EXC", type(e).__name__)
