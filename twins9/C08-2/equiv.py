import glob, io, logging, os, sys, zipfile
sys.path.insert(0, os.getcwd())
logging.disable(logging.CRITICAL)
from sharepoint2text.parsing.extractors.util import encryption as E


def odf(manifest, name="META-INF/manifest.xml", extra=()):
    buf = io.BytesIO()
    with zipfile.ZipFile(buf, "w") as zf:
        zf.writestr("mimetype", "application/vnd.oasis.opendocument.text")
        if manifest is not None:
            zf.writestr(name, manifest)
        for n, d in extra:
            zf.writestr(n, d)
    return buf


M = '<?xml version="1.0"?><manifest:manifest xmlns:manifest="urn:oasis:names:tc:opendocument:xmlns:manifest:1.0">%s</manifest:manifest>'
cases = {
    "plain": M % '<manifest:file-entry manifest:full-path="/" manifest:media-type="x"/>',
    "encryption-data": M % '<manifest:file-entry manifest:full-path="content.xml"><manifest:encryption-data manifest:checksum="x"/></manifest:file-entry>',
    "other-prefix-encryption-data": M.replace("manifest:", "m:").replace("xmlns:manifest", "xmlns:m") % '<m:file-entry><m:encryption-data/></m:file-entry>',
    "manifest:encrypted-only": M % '<manifest:file-entry manifest:encrypted="true"/>',
    "manifest:algorithm-only": M % '<manifest:algorithm manifest:algorithm-name="aes"/>',
    "marker-in-comment": M % "<!-- no encryption-data here -->",
    "marker-in-path": M % '<manifest:file-entry manifest:full-path="docs/encryption-data.txt"/>',
    "upper-case": M % "<manifest:ENCRYPTION-DATA/>",
    "split-word": M % "<manifest:encryption -data/>",
    "empty-manifest": "",
    "invalid-utf8": b"\xff\xfeencryption-data\xff",
    "invalid-utf8-split": b"encryption-\xffdata",
    "utf16": (M % "<manifest:encryption-data/>").encode("utf-16"),
    "no-manifest": None,
}
for label, manifest in cases.items():
    buf = odf(manifest)
    buf.seek(5)
    try:
        print("odf", label, E.is_odf_encrypted(buf), buf.tell())
    except Exception as exc:  # noqa: BLE001
        print("odf", label, "EXC", type(exc).__name__, buf.tell())
buf = odf(cases["encryption-data"], name="meta-inf/manifest.xml")
print("odf wrong-case-member", E.is_odf_encrypted(buf), buf.tell())
for label, raw in {"not-zip": b"hello" * 50, "empty": b"", "ole-magic": b"\xd0\xcf\x11\xe0\xa1\xb1\x1a\xe1" + b"\x00" * 600}.items():
    for fn in (E.is_odf_encrypted, E.is_ooxml_encrypted, E.is_ppt_encrypted, E.is_xls_encrypted):
        buf = io.BytesIO(raw)
        try:
            print(fn.__name__, label, fn(buf), buf.tell())
        except Exception as exc:  # noqa: BLE001
            print(fn.__name__, label, "EXC", type(exc).__name__)


class FakeOle:
    def __init__(self, present):
        self.present = present
        self.asked = []

    def exists(self, name):
        self.asked.append(name)
        return name in self.present


for present in [(), ("EncryptionInfo",), ("EncryptedPackage",), ("DataSpaces",), ("DataSpaces", "EncryptionInfo"), ("encryptioninfo",), ("WordDocument",)]:
    ole = FakeOle(present)
    res = E._has_ole_encryption_stream(ole)
    print("ole-streams", present, res, type(res).__name__, ole.asked)

# every fixture of the test-suite through every detector (read-only)
for path in sorted(glob.glob("sharepoint2text/tests/resources/**/*", recursive=True)):
    if not os.path.isfile(path) or os.path.getsize(path) > 8_000_000:
        continue
    with open(path, "rb") as fh:
        raw = fh.read()
    out = []
    for fn in (E.is_ooxml_encrypted, E.is_odf_encrypted, E.is_ppt_encrypted, E.is_xls_encrypted):
        buf = io.BytesIO(raw)
        try:
            out.append((fn(buf), buf.tell()))
        except Exception as exc:  # noqa: BLE001
            out.append(type(exc).__name__)
    print(os.path.relpath(path, "sharepoint2text/tests/resources"), out)
