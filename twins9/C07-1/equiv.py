import mimetypes, os, sys
sys.path.insert(0, os.getcwd())
from sharepoint2text.parsing import router as R
from sharepoint2text.parsing.exceptions import ExtractionFileFormatNotSupportedError

exts = sorted(set(R._EXTRACTOR_REGISTRY) | set(R._EXTENSION_ALIASES) | {e.lstrip(".") for e in R._COMPOUND_EXTENSIONS})
exts += ["", ".", "xyz", "tar", "gz", "taz", "tz", "htm ", " pdf", "docx.bak", "d\u00f6cx", "PDF", "DocX", "tar.GZ", "jpeg", "exe", "json", "md", "eml", "msg", "mbox"]
stems = ["a", "dir/a", "dir.d/a", ".hidden", "a.b", "a b", "https://h/x/a", "a.", "", "C:\\x\\a", "a..", "dir.pdf/", "a.tar"]
paths = []
for stem in stems:
    for ext in exts:
        for variant in (ext, ext.upper(), ext.title()):
            paths.append(f"{stem}.{variant}")
            paths.append(f"{stem}{variant}")
paths += ["", ".", "..", "...", "pdf", ".pdf", "a.pdf.", "a.pdf/", "a.PDF ", "x.tar.gz", "x.TAR.BZ2", "x.tar.xz.txt", "noext", "a/.b/c", "a.\u0130"]
paths = sorted(set(paths))


def probe(p):
    ft = R._file_type_from_extension(p.lower())
    try:
        ex = R.get_extractor(p)
        got = f"{ex.__module__}.{ex.__name__}"
    except ExtractionFileFormatNotSupportedError as exc:
        got = f"NotSupported:{exc}"
    except Exception as exc:  # noqa: BLE001
        got = f"EXC {type(exc).__name__}"
    return ft, R.is_supported_file(p), got


import hashlib
h = hashlib.sha256()
rows = 0
for p in paths:
    row = repr((p, probe(p)))
    h.update(row.encode())
    rows += 1
    if rows % 97 == 0:
        print(row)
print(rows, h.hexdigest())

# MIME database independence of the extension step
saved = (dict(mimetypes.types_map), mimetypes.inited)
mimetypes.init(files=[])
mimetypes.add_type("application/pdf", ".zzz")
mimetypes.add_type("text/plain", ".docx")
for p in ["a.zzz", "a.docx", "a.DOCX", "a.", "a", "a.tar.gz", "a.unknownext"]:
    print(repr((p, probe(p))))
