import copy, io, json, os, sys
sys.path.insert(0, os.getcwd())
from sharepoint2text.parsing.extractors import serialization as S
from sharepoint2text.parsing.extractors import data_types as D


def show(label, fn):
    try:
        out = fn()
        print(label, "OK", out)
    except Exception as exc:  # noqa: BLE001
        print(label, "EXC", type(exc).__name__, str(exc)[:120])


def rt(payload, expected=None):
    before = copy.deepcopy(payload)
    obj = S._deserialize_dataclass(payload, expected)
    unchanged = payload == before
    if hasattr(obj, "__dataclass_fields__"):
        dumped = json.dumps(S.serialize_extraction(obj), sort_keys=True)
    else:
        dumped = repr(obj)
    return type(obj).__name__, unchanged, dumped


payloads = [
    {"_type": "ImageMetadata", "unit_index": 3, "image_index": 7},
    {"_type": "ImageMetadata", "unit_number": 1, "unit_index": 3, "image_index": 7},
    {"_type": "ImageMetadata", "unit_number": 1, "image_number": 2, "unit_index": 9, "image_index": 9},
    {"_type": "ImageMetadata", "image_index": 5},
    {"_type": "ImageMetadata", "unit_index": None, "image_index": 0},
    {"_type": "ImageMetadata"},
    {"_type": "ImageMetadata", "unit_index": {"_bytes": "QUJD"}},
    {"_type": "TableData", "data": [["_type", "_bytes"], [1, None]], "unit_index": 4},
    {"_type": "FileMetadataInterface", "unit_index": 4, "image_index": 1},
    {"_type": "NoSuchType", "unit_index": 4},
    {"unit_index": 4, "image_index": 1},
]
for i, p in enumerate(payloads):
    show(f"p{i}", lambda p=p: rt(p))
    show(f"p{i}-expected-ImageMetadata", lambda p=p: rt(dict(p), D.ImageMetadata))

# Through the public entry point, nested inside a result
for name in sorted(S._get_type_registry()):
    cls = S._get_type_registry()[name]
    try:
        inst = cls()
    except Exception as exc:  # noqa: BLE001
        print(name, "ctor", type(exc).__name__)
        continue
    js = json.loads(json.dumps(S.serialize_extraction(inst), default=repr))
    show(f"rt-{name}", lambda js=js: json.dumps(S.serialize_extraction(S.deserialize_extraction(js)), sort_keys=True, default=repr) == json.dumps(js, sort_keys=True))

show("not-dict", lambda: S.deserialize_extraction([1]))
show("no-type", lambda: S.deserialize_extraction({"a": 1}))
