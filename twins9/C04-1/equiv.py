import os, sys, tempfile
from pathlib import Path, PurePosixPath
sys.path.insert(0, os.getcwd())
from sharepoint2text.parsing.extractors.data_types import FileMetadataInterface

tmp = tempfile.mkdtemp(prefix="eqv")
os.makedirs(os.path.join(tmp, "sub dir"))
open(os.path.join(tmp, "sub dir", "fü.tar.gz"), "w").close()
old = os.getcwd()
os.chdir(tmp)
paths = [None, "", ".", "..", "a.txt", "sub dir/fü.tar.gz", "sub dir", "./sub dir/../sub dir/fü.tar.gz",
         "/nonexistent/x/y.docx", "/", "arch.zip!/inner/doc.docx", "arch.zip!/doc", "noext", ".hidden",
         "trailing/", "a//b.txt", "back\\slash.txt", Path("sub dir") / "fü.tar.gz", Path("x/y.z"),
         os.path.join(tmp, "sub dir", "fü.tar.gz"), "日本/語.pdf"]
for p in paths:
    for resolve in (True, False, None):
        m = FileMetadataInterface(filename="keep", folder_path="keepf")
        try:
            if resolve is None:
                m.populate_from_path(p)
            else:
                m.populate_from_path(p, resolve=resolve)
            d = m.to_dict()
            print(repr(p).replace(tmp, "<T>"), resolve, repr(d).replace(os.path.realpath(tmp), "<T>").replace(tmp, "<T>"))
        except Exception as e:
            print(repr(p), resolve, "EXC", type(e).__name__)
os.chdir(old)
