import os, sys, struct
sys.path.insert(0, os.getcwd())
from sharepoint2text.parsing.extractors.pdf import pdf_extractor as m


def font(tables, declared=None):
    """tables: list of (tag, payload, length_override or None)"""
    n = len(tables) if declared is None else declared
    out = b"\x00\x01\x00\x00" + struct.pack(">HHHH", n, 0, 0, 0)
    off = 12 + 16 * len(tables)
    body = b""
    for tag, payload, ln in tables:
        out += struct.pack(">4sIII", tag, 0, off + len(body), len(payload) if ln is None else ln)
        body += payload
    return out + body


def head(upem=1000, fmt=0):
    h = bytearray(54)
    h[18:20] = struct.pack(">H", upem)
    h[50:52] = struct.pack(">h", fmt)
    return bytes(h)


def maxp(n):
    return b"\x00\x01\x00\x00" + struct.pack(">H", n)


def glyph(xmin, ymin, xmax, ymax):
    return struct.pack(">hhhhh", 1, xmin, ymin, xmax, ymax) + b"\0\0"


GL = [glyph(0, 0, 500, 700), glyph(-10, -20, 90, 80), glyph(5, 5, 5, 5)]
glyf = b"".join(GL)
loca0 = b"".join(struct.pack(">H", i * 6) for i in range(4))
loca1 = b"".join(struct.pack(">I", i * 12) for i in range(4))
GOOD0 = font([(b"head", head(1000, 0), None), (b"maxp", maxp(3), None), (b"loca", loca0, None), (b"glyf", glyf, None)])
GOOD1 = font([(b"head", head(2048, 1), None), (b"maxp", maxp(3), None), (b"loca", loca1, None), (b"glyf", glyf, None)])
CASES = [
    ("empty", b"", [0]),
    ("short", b"\0" * 11, [0, 1]),
    ("no_tables", font([]), [0]),
    ("no_head", font([(b"maxp", maxp(3), None)]), [0]),
    ("no_maxp", font([(b"head", head(), None)]), [0]),
    ("no_loca", font([(b"head", head(), None), (b"maxp", maxp(3), None)]), [0]),
    ("loca_short", font([(b"head", head(), None), (b"maxp", maxp(9), None), (b"loca", loca0, None), (b"glyf", glyf, None)]), [0]),
    ("no_glyf", font([(b"head", head(), None), (b"maxp", maxp(3), None), (b"loca", loca0, None)]), [0, 1, 2]),
    ("good0", GOOD0, [0, 1, 2]),
    ("good0_again", GOOD0, [0, 1, 2]),
    ("good0_other_glyphs", GOOD0, [2]),
    ("good0_out_of_range", GOOD0, [-1, 3, 99, 1]),
    ("good0_no_glyphs", GOOD0, []),
    ("good0_dupes", GOOD0, [1, 1, 0]),
    ("good1", GOOD1, [0, 1, 2]),
    ("glyf_trunc", font([(b"head", head(), None), (b"maxp", maxp(3), None), (b"loca", loca0, None), (b"glyf", glyf, 14)]), [0, 1]),
    ("head_len_short", font([(b"head", head(), 10), (b"maxp", maxp(3), None), (b"loca", loca0, None), (b"glyf", glyf, None)]), [0]),
    ("maxp_len_short", font([(b"head", head(), None), (b"maxp", maxp(3), 4), (b"loca", loca0, None), (b"glyf", glyf, None)]), [0]),
    ("declared_more", font([(b"head", head(), None)], declared=5), [0]),
    ("bad_glyph_id_type", GOOD0, ["x"]),
]
m._FONT_CACHE.clear()
for name, data, gids in CASES:
    before = len(m._FONT_CACHE)
    try:
        r1 = m._ttf_get_glyph_features(data, gids)
        r2 = m._ttf_get_glyph_features(data, gids)
        out = (repr(r1), r1 is r2)
    except Exception as e:
        out = ("EXC", type(e).__name__)
    key = (data, tuple(gids))
    print(name, out, "cache+%d" % (len(m._FONT_CACHE) - before), "cached=" + repr(m._FONT_CACHE.get(key, "<absent>")))
print("final cache size", len(m._FONT_CACHE))
print(sorted((len(k[0]), k[1], repr(v)) for k, v in m._FONT_CACHE.items() if all(isinstance(g, int) for g in k[1])))
