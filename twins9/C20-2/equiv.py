import hashlib
import os
import sys

sys.path.insert(0, os.getcwd())

from sharepoint2text.parsing.extractors.pdf import _pypdf_aes_fallback as m


def show(label, fn, *args):
    try:
        r = fn(*args)
        if isinstance(r, (bytes, bytearray)):
            r = bytes(r).hex()
        elif isinstance(r, list):
            r = [x.hex() if isinstance(x, bytes) else x for x in r]
        print(label, "->", r)
    except Exception as exc:  # noqa: BLE001
        print(label, "!!", type(exc).__name__, str(exc))


def det(n, seed):
    out = b""
    c = 0
    while len(out) < n:
        out += hashlib.sha256(("%s-%d" % (seed, c)).encode()).digest()
        c += 1
    return out[:n]


# ShiftRows / InvShiftRows on all 16 positions
for name in ("_shift_rows", "_inv_shift_rows"):
    st = list(range(16))
    getattr(m, name)(st)
    print(name, st)
    st = [(i * 37 + 11) & 0xFF for i in range(16)]
    getattr(m, name)(st)
    getattr(m, name)(st)
    print(name, "twice", st)
st = list(range(16))
m._shift_rows(st)
m._inv_shift_rows(st)
print("roundtrip", st)

# key expansion for all key sizes + invalid
for klen in (16, 24, 32, 0, 15, 17, 33):
    show("expand%d" % klen, m._expand_key, det(klen, "k"))
show("expand-fips128", m._expand_key, bytes.fromhex("2b7e151628aed2a6abf7158809cf4f3c"))
show("expand-fips192", m._expand_key, bytes.fromhex("8e73b0f7da0e6452c810f32b809079e562f8ead2522c6b7b"))
show("expand-fips256", m._expand_key, bytes.fromhex("603deb1015ca71be2b73aef0857d77811f352c073b6108d72d9810a30914dff4"))

# FIPS-197 appendix C known answers
pt = bytes.fromhex("00112233445566778899aabbccddeeff")
for klen in (16, 24, 32):
    key = bytes(range(klen))
    show("ecb-enc-%d" % klen, m.aes_ecb_encrypt, key, pt)
    ct = m.aes_ecb_encrypt(key, pt)
    show("ecb-dec-%d" % klen, m.aes_ecb_decrypt, key, ct)

# CBC with pseudo-random triples
for n, klen in enumerate((16, 24, 32, 16, 32)):
    key = det(klen, "key%d" % n)
    iv = det(16, "iv%d" % n)
    msg = det(16 * n, "msg%d" % n)
    show("cbc-enc-%d" % n, m.aes_cbc_encrypt, key, iv, msg)
    ct = m.aes_cbc_encrypt(key, iv, msg)
    show("cbc-dec-%d" % n, m.aes_cbc_decrypt, key, iv, ct)

# wrong sizes
show("ecb-badlen", m.aes_ecb_encrypt, bytes(16), bytes(15))
show("ecb-badkey", m.aes_ecb_encrypt, bytes(5), bytes(16))
show("cbc-badiv", m.aes_cbc_decrypt, bytes(16), bytes(8), bytes(16))
show("cbc-baddata", m.aes_cbc_encrypt, bytes(16), bytes(16), bytes(17))
show("block-bad", m._aes_encrypt_block, bytes(3), m._expand_key(bytes(16)))
print("cache", [k.hex() for k in m._ROUND_KEY_CACHE])
