import os, sys, io
sys.path.insert(0, os.getcwd())
from sharepoint2text.parsing.extractors.mail.mbox_email_extractor import (
    _split_mbox_messages, read_mbox_format_mail)

F = b"From a@b.c Mon Jan  1 00:00:00 2024\n"
def msg(n, body=b"hello"):
    return b"From: x%d@y.z\nTo: q@r.s\nSubject: s%d\n\n" % (n, n) + body + b"\n"
cases = [
    b"", b"no separator at all\n", F, F + F, F + b"\n\n" + F,
    F + msg(1), F + msg(1) + b"\n" + F + msg(2),
    F + msg(1) + F + b"\r\n\r\n" + F + msg(3, b"tail without newline"),
    F.replace(b"\n", b"\r\n") + msg(1).replace(b"\n", b"\r\n") + F.replace(b"\n", b"\r\n") + msg(2),
    msg(0) + F + msg(1),
    F + msg(1, b">From quoted 2024\nFrom inner@x.y  Tue 2023\nrest"),
    F + msg(1) + b"From broken line without year\n" + msg(2),
    b"\n".join([F.rstrip(b"\n") + b"\n" + msg(i) for i in range(6)]),
    F[:-1],
]
for i, c in enumerate(cases):
    print(i, repr(_split_mbox_messages(c)))
    try:
        res = list(read_mbox_format_mail(io.BytesIO(c), "box.mbox"))
        print("  ", [(r.subject, r.get_full_text()) for r in res],
              [[u.get_metadata().unit_number for u in r.iterate_units()] for r in res])
    except Exception as e:
        print("  EXC", type(e).__name__, e)
