import os, sys, datetime, decimal
sys.path.insert(0, os.getcwd())
from sharepoint2text.parsing.extractors.ms_modern.xlsx_extractor import _format_sheet_as_text as f
cases = [
    [], [[]], [[], []], [["a"]], [["h1", "header2"], [1, 2.0], [333333333.5, None]],
    [["h"], [1, 2, 3], []], [["a", "b", "c"], ["x"], [None, None, "zzzz"], []],
    [["äö", "tab\tin"], ["multi\nline", " pad "]], [[None], [None]], [[""], [""]],
    [[True, False, 0, -0.0, 1e20, 1.5e-7]], [[datetime.date(2024, 1, 2), datetime.time(3, 4), decimal.Decimal("1.10")]],
    [["ok"], [float("inf")]], [["ok", float("nan")], ["never reached"]],
    [["A"]] + [list(range(j)) for j in range(6)],
    [[b"bytes", ("t", 1), [1, 2]]],
]
for i, rows in enumerate(cases):
    try:
        print(i, repr(f(rows)))
    except Exception as e:
        print(i, "EXC", type(e).__name__, e)
