import io, os, sys, logging
from datetime import datetime

sys.path.insert(0, os.getcwd())

import olefile
from sharepoint2text.parsing.extractors.ms_legacy import ppt_extractor
from sharepoint2text.parsing.extractors.ms_legacy.ppt_extractor import _extract_metadata, read_ppt

RES = os.path.join(os.getcwd(), "sharepoint2text", "tests", "resources")


class Meta:
    def __init__(self, **kw):
        self.__dict__.update(kw)


class FakeOle:
    def __init__(self, meta=None, fail=None):
        self._meta, self._fail = meta, fail

    def get_metadata(self):
        if self._fail:
            raise self._fail
        return self._meta


class Touchy:
    """Metadata object that records the order in which properties are read."""

    def __init__(self, values):
        object.__setattr__(self, "_values", values)
        object.__setattr__(self, "reads", [])

    def __getattr__(self, name):
        self.reads.append(name)
        try:
            return self._values[name]
        except KeyError:
            raise AttributeError(name)


def dump(label, ole):
    result = _extract_metadata(ole)
    print(label, "->", sorted((k, v) for k, v in vars(result).items() if v not in ("", None, 0, [], {})))


dump("get_metadata fails", FakeOle(fail=RuntimeError("boom")))
dump("empty metadata", FakeOle(Meta()))
dump("bytes in cp1252", FakeOle(Meta(codepage=1252, codepage_doc=1252, title=b"Caf\xe9", author=b"J\xf6rg",
                                     company=b"Soci\xe9t\xe9", manager=b"M", category=b"Cat")))
dump("summary utf-8, doc summary cp1251", FakeOle(Meta(codepage=65001, codepage_doc=1251, title="Café".encode(),
                                                       company=b"\xc0\xc1\xc2", manager=b"\xc3", category=b"\xc4",
                                                       keywords="ключ".encode(), comments=b"c", subject=b"s",
                                                       last_saved_by=b"l", revision_number=b"7",
                                                       creating_application=b"PowerPoint")))
dump("str values", FakeOle(Meta(title="T", author="A", company="C", revision_number="3")))
dump("dates", FakeOle(Meta(create_time=datetime(2020, 1, 2, 3, 4, 5), last_saved_time=datetime(2021, 6, 7))))
dump("dates of the wrong type", FakeOle(Meta(create_time="2020", last_saved_time=12345)))
dump("numbers", FakeOle(Meta(slides=12, notes=3, hidden_slides=0)))
dump("numbers as strings and floats", FakeOle(Meta(slides="12", notes=3.9, hidden_slides=True)))
dump("title set, then a number that is not one", FakeOle(Meta(title=b"kept", slides="many", notes=4)))
dump("unknown codepage", FakeOle(Meta(codepage=99999, codepage_doc=-5, title=b"abc", company=b"def")))
dump("odd value types", FakeOle(Meta(title=123, author=["a"], company=None, manager=b"")))
touchy = Touchy({"title": b"t", "slides": 2, "create_time": datetime(2022, 2, 2)})
dump("read order", FakeOle(touchy))
print("   reads:", touchy.reads)

for name in ("eurouni2.ppt", "ppt_with_images.ppt", "slide_with_notes.ppt"):
    path = os.path.join(RES, "legacy_ms", name)
    with open(path, "rb") as fh:
        data = fh.read()
    with olefile.OleFileIO(io.BytesIO(data)) as ole:
        dump("file " + name, ole)
    for content in read_ppt(io.BytesIO(data), name):
        md = content.get_metadata()
        print("   read_ppt:", md.title, "|", md.author, "|", md.created, "|", md.modified, "|", md.num_slides)
