import os, sys, struct
sys.path.insert(0, os.getcwd())
from sharepoint2text.parsing.extractors.ms_modern import xlsx_extractor as m

def png(w, h, n=33):
    d = b"\x89PNG\r\n\x1a\n" + struct.pack(">I", 13) + b"IHDR" + struct.pack(">II", w, h) + b"\x08\x02\x00\x00\x00"
    return d[:n] if n < len(d) else d + b"\0" * (n - len(d))

def gif(w, h, v=b"GIF89a"):
    return v + struct.pack("<HH", w, h) + b"\x00\x00\x00"

def bmp(w, h):
    return b"BM" + b"\0" * 16 + struct.pack("<ii", w, h) + b"\x01\x00\x18\x00"

def seg(marker, payload):
    return bytes([0xFF, marker]) + struct.pack(">H", len(payload) + 2) + payload

def sof(marker, w, h):
    return seg(marker, b"\x08" + struct.pack(">HH", h, w) + b"\x03\x01\x11\x00")

SOI = b"\xff\xd8"
APP0 = seg(0xE0, b"JFIF\0\x01\x01\0\0\x01\0\x01\0\0")
CASES = {
    "empty": b"", "junk": b"hello world", "png": png(640, 480), "png0": png(0, 7), "png_short": png(5, 5, 23), "png24": png(5, 6, 24),
    "gif87": gif(3, 4, b"GIF87a"), "gif89": gif(65535, 1), "gif_short": b"GIF89a\x01\x00\x01", "gif0": gif(0, 0),
    "bmp": bmp(10, 20), "bmp_neg": bmp(10, -20), "bmp_short": bmp(1, 1)[:25], "bmp0": bmp(0, 3),
    "jpg_sof0": SOI + APP0 + sof(0xC0, 100, 50), "jpg_sof2": SOI + APP0 + seg(0xDB, b"\0" * 65) + sof(0xC2, 1, 2),
    "jpg_dht_first": SOI + seg(0xC4, b"\0" * 20) + sof(0xC1, 9, 8), "jpg_sos_before_sof": SOI + seg(0xDA, b"\0" * 4) + sof(0xC0, 9, 8),
    "jpg_eoi": SOI + b"\xff\xd9" + sof(0xC0, 9, 8), "jpg_len1": SOI + b"\xff\xe0\x00\x01" + sof(0xC0, 9, 8),
    "jpg_len0": SOI + b"\xff\xe0\x00\x00", "jpg_trunc_sof": SOI + sof(0xC0, 9, 8)[:9], "jpg_trunc_len": SOI + b"\xff\xc0\x00",
    "jpg_padding": SOI + b"\x00\x01\x02" + APP0 + sof(0xC0, 7, 0), "jpg_fill_ff": SOI + b"\xff\xff\xff" + sof(0xC0, 7, 3),
    "jpg_only_soi": SOI, "jpg_zero": SOI + sof(0xC0, 0, 0), "jpg_sof15": SOI + sof(0xCF, 11, 12), "jpg_c8": SOI + seg(0xC8, b"\0" * 8) + sof(0xC3, 4, 5),
    "jpg_app_overrun": SOI + b"\xff\xe1\xff\xff" + b"\0" * 10, "jpg_sof_overrun": SOI + b"\xff\xc0\x00\x40" + b"\x08\x00\x05\x00\x06",
}
for k, d in CASES.items():
    try:
        print(k, repr(m._get_image_pixel_dimensions(d)))
    except Exception as e:
        print(k, "EXC", type(e).__name__)
