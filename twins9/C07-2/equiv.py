import os, sys
sys.path.insert(0, os.getcwd())
from sharepoint2text.parsing.extractors import archive_extractor as A
from sharepoint2text.parsing import router as R

exts = sorted(set(R._EXTRACTOR_REGISTRY) | set(R._EXTENSION_ALIASES) | {e.lstrip(".") for e in R._COMPOUND_EXTENSIONS} | {e.lstrip(".") for e in A.NESTED_ARCHIVE_EXTENSIONS})
exts += ["", "xyz", "taz", "tz", "tar.Z", "gz.txt", "zip.pdf", "pdf.zip", "7Z", "exe", "bin", "gz ", "tar.gz.bak"]
names = []
for stem in ["a", ".a", "a.b", "a b", "", "x.tar", "report.final", "__MACOSX"]:
    for ext in exts:
        for v in (ext, ext.upper(), ext.capitalize()):
            names.append(f"{stem}.{v}" if v else stem)
names += ["gz", ".gz", "zip", "a.", ".", "..", "tar.gz", "a.tar.gz.", "K.zip", "a.ZİP"]
names = sorted(set(names))
dirs = ["", "dir/", "__MACOSX/", "x/__MACOSX/", ".git/", "a.zip/"]
import hashlib
h = hashlib.sha256()
n = 0
for d in dirs:
    for b in names:
        try:
            res = A._should_skip_file(d + b, b)
        except Exception as exc:  # noqa: BLE001
            res = "EXC " + type(exc).__name__
        try:
            sup = R.is_supported_file(b)
            try:
                ex = R.get_extractor(b).__name__
            except Exception as exc:  # noqa: BLE001
                ex = type(exc).__name__
        except Exception as exc:  # noqa: BLE001
            sup, ex = "EXC", type(exc).__name__
        row = repr((d + b, res, sup, ex))
        h.update(row.encode())
        n += 1
        if n % 131 == 0:
            print(row)
print(n, h.hexdigest())
# the public set is consulted at call time
A.NESTED_ARCHIVE_EXTENSIONS.add(".pdf")
print("after-add", A._should_skip_file("a.pdf", "a.pdf"), A._should_skip_file("a.docx", "a.docx"))
A.NESTED_ARCHIVE_EXTENSIONS.discard(".pdf")
print("after-discard", A._should_skip_file("a.pdf", "a.pdf"))
