import os
import sys

sys.path.insert(0, os.getcwd())

from xml.etree import ElementTree as ET

from sharepoint2text.parsing.extractors.util.omml_to_latex import omml_to_latex

NS = 'xmlns:m="http://schemas.openxmlformats.org/officeDocument/2006/math"'


def r(t):
    return "<m:r><m:rPr><m:sty/></m:rPr><m:t>%s</m:t></m:r>" % t


def rad(content, deg=None, hide=False):
    pr = '<m:radPr><m:degHide m:val="1"/></m:radPr>' if hide else ""
    d = "<m:deg>%s</m:deg>" % deg if deg is not None else ""
    return "<m:rad>%s%s<m:e>%s</m:e></m:rad>" % (pr, d, content)


def nary(ch=None, sub=None, sup=None, e="", chr_elem=True, extra=""):
    if not chr_elem:
        pr = "<m:naryPr/>"
    elif ch is None:
        pr = "<m:naryPr><m:chr/></m:naryPr>"
    else:
        pr = '<m:naryPr><m:chr m:val="%s"/></m:naryPr>' % ch
    s = "<m:sub>%s</m:sub>" % sub if sub is not None else ""
    p = "<m:sup>%s</m:sup>" % sup if sup is not None else ""
    return "<m:nary>%s%s%s%s<m:e>%s</m:e></m:nary>" % (pr, extra, s, p, e)


CASES = [
    r("x"),
    rad(r("x")),
    rad(r("x"), deg=r("3")),
    rad(r("x"), deg=r(" "), hide=True),
    rad(""),
    "<m:rad/>",
    rad(r("(")) + r("a+b)") + r("c"),
    rad(r(" [ "), deg=r("n")) + r("a]b"),
    rad(r("{")) + r("q"),
    rad(r("(")) + rad(r("[")) + r("x]y)z"),
    rad(r("(")) + rad(r("(")) + r("x"),
    rad(r("((")) + r("a)"),
    rad(rad(r("(")) + r("a)")),
    rad(r("(") , deg=rad(r("["))) + r("1]2)3"),
    rad(r("α∑"), deg=r("β")),
    nary("∑", r("i=1"), r("n"), r("i")),
    nary("∏", r("k"), None, r("k")),
    nary("∫", None, r("b"), r("f")),
    nary("∬", r(" "), r(" "), r("f")),
    nary("∭", "", "", r("f")),
    nary(None, r("a"), r("b"), r("x")),
    nary(None, r("a"), r("b"), r("x"), chr_elem=False),
    "<m:nary><m:e>%s</m:e></m:nary>" % r("x"),
    "<m:nary/>",
    nary("⋃", r("i"), None, r("A")),
    nary("Σ", r("i"), None, r("A")),
    nary("", r("i"), None, r("A")),
    nary("ab", r("i"), None, r("A")),
    nary("∑", r("i"), r("n"), nary("∏", r("j"), r("m"), r("a"))),
    nary(None, r("i"), r("n"), nary("∑", r("j"), r("m"), r("a")), chr_elem=False),
    nary("∑", rad(r("(")), r("n)"), r("z")),
    '<m:d><m:dPr><m:begChr m:val="["/></m:dPr><m:e>%s</m:e><m:e>%s</m:e></m:d>'
    % (nary("∫", None, None, r("f")), rad(r("y"))),
    "<m:f><m:num>%s</m:num><m:den>%s</m:den></m:f>" % (rad(r("[")), r("a]")),
    '<m:acc><m:accPr><m:chr m:val="̃"/></m:accPr><m:e>%s</m:e></m:acc>'
    % nary("∑", None, None, r("x")),
]

for n, body in enumerate(CASES):
    xml = "<m:oMath %s>%s</m:oMath>" % (NS, body)
    try:
        out = omml_to_latex(ET.fromstring(xml))
        print(n, ascii(out))
    except Exception as exc:  # noqa: BLE001
        print(n, "!!", type(exc).__name__, ascii(str(exc)))
print("none", ascii(omml_to_latex(None)))
