import hashlib, io, json, os, sys
sys.path.insert(0, os.getcwd())
from sharepoint2text.parsing.extractors import data_types as D

P = D.OdtParagraph


def para(text, level=None, style=None):
    return P(text=text, outline_level=level, style_name=style)


def img(i, caption="", description="", data=b"x"):
    return D.OpenDocumentImage(image_index=i, caption=caption, description=description, data=io.BytesIO(data * i), name=f"img{i}")


def table(rows):
    return D.OdtTable(data=rows)


docs = {}
docs["no-paragraphs"] = D.OdtContent(full_text="just text", images=[img(1, "cap")])
docs["no-headings"] = D.OdtContent(paragraphs=[para("alpha"), para("beta")], full_text="alpha\nbeta", images=[img(1, "alpha"), img(2)])
heads = [para("Intro", 1), para("see Figure A here"), para("Details", 2), para("the chart B"), para("Other", 1), para("closing words"), para("Sub", 3), para("deep text")]
docs["caption-match"] = D.OdtContent(paragraphs=heads, images=[img(1, "Figure A"), img(2, "", "chart B"), img(3, "nowhere", "nothing"), img(4), img(5, "deep text", "Figure A"), img(6, "zzz", "closing")])
docs["single-unit"] = D.OdtContent(paragraphs=[para("Only", 1), para("body")], images=[img(1, "zzz"), img(2, "body")])
docs["no-level1-units"] = D.OdtContent(paragraphs=[para("A", 2), para("a text"), para("B", 3), para("b text")], images=[img(1), img(2, "b text"), img(3, "q", "a text")])
docs["title+tables"] = D.OdtContent(
    metadata=D.OpenDocumentMetadata(title="Doc"),
    paragraphs=[para("H1", 1), para("one"), para("cell", None, "Table_Contents"), para("H2", 1), para("two Name Age")],
    tables=[table([["x", "y"]]), table([["Name", "Age"], ["a", 1]]), table([])],
    images=[img(1, "two"), img(2, "", "one"), img(3)],
)
docs["preface-before-heading"] = D.OdtContent(paragraphs=[para("preface"), para("H", 2), para("under h"), para("H1", 1), para("")], images=[img(1), img(2, "preface")])
docs["empty-heading-text"] = D.OdtContent(paragraphs=[para("  ", 1), para("x"), para("Real", 1), para("y")], images=[img(1, "x"), img(2, "y"), img(3)])


def digest(doc):
    return hashlib.sha256(json.dumps(doc.to_json(), sort_keys=True).encode()).hexdigest()[:16]


for label, doc in docs.items():
    try:
        d0 = digest(doc)
        runs = []
        for _ in range(3):
            units = list(doc.iterate_units())
            runs.append([
                (u.unit_number, u.heading_level, u.heading_path, u.text, [(i.image_index, i.unit_name, i.data.getvalue()) for i in u.images], [t.data for t in u.tables])
                for u in units
            ])
        d1 = digest(doc)
        print(label, "stable-json", d0 == d1, d0, "repeatable", runs[0] == runs[1] == runs[2])
        print(label, "stored-image-unit-names", [i.unit_name for i in doc.images])
        for row in runs[0]:
            print("   ", row)
        print(label, "units-json", hashlib.sha256(json.dumps([u.to_json() for u in doc.iterate_units()], sort_keys=True).encode()).hexdigest()[:16])
    except Exception as exc:  # noqa: BLE001
        print(label, "EXC", type(exc).__name__, str(exc)[:150])
