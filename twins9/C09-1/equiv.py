import io, os, re, sys, logging, tempfile, shutil

sys.path.insert(0, os.getcwd())


class _Capture(logging.Handler):
    def __init__(self):
        super().__init__(level=logging.WARNING)
        self.lines = []

    def emit(self, record):
        self.lines.append(f"{record.levelname}:{record.name}:{record.getMessage()}")


CAPTURE = _Capture()
_root_logger = logging.getLogger()
_root_logger.handlers[:] = [CAPTURE]
_root_logger.setLevel(logging.WARNING)


def drain_log():
    out, CAPTURE.lines = CAPTURE.lines, []
    return out

# ---- minimal independent 7z writer (in memory) ------------------------------
import lzma as _lzma, struct as _struct, zlib as _zlib


def _num(v):
    for extra in range(8):
        if v < (1 << (8 * extra + 7 - extra)):
            first = ((0xFF << (8 - extra)) & 0xFF) | (v >> (8 * extra))
            return bytes([first]) + (v & ((1 << (8 * extra)) - 1)).to_bytes(extra, "little")
    return b"\xff" + v.to_bytes(8, "little")


def _bits(flags):
    out = bytearray()
    cur, mask = 0, 0x80
    for f in flags:
        if f:
            cur |= mask
        mask >>= 1
        if mask == 0:
            out.append(cur)
            cur, mask = 0, 0x80
    if mask != 0x80:
        out.append(cur)
    return bytes(out)


def _pack(method, data):
    if method == "copy":
        return data, b"\x01\x00"
    if method == "lzma":
        raw = _lzma.compress(data, format=_lzma.FORMAT_ALONE,
                             filters=[{"id": _lzma.FILTER_LZMA1, "preset": 6}])
        return raw[13:], b"\x23\x03\x01\x01" + _num(5) + raw[:5]
    if method == "lzma2":
        raw = _lzma.compress(data, format=_lzma.FORMAT_RAW,
                             filters=[{"id": _lzma.FILTER_LZMA2, "dict_size": 1 << 20}])
        return raw, b"\x21\x21" + _num(1) + bytes([18])
    raise ValueError(method)


def make_7z(entries, method="copy", solid=True, tamper=None, attrs=None, attr_ext=True,
            substreams=True, counts=None):
    """entries: list of (name, data) ; data None = directory, b'' = empty file.

    solid: True = one folder, False = one folder per file, n = folders of n files."""
    with_data = [(n, d) for n, d in entries if d]
    chunk = (len(with_data) or 1) if solid is True else (1 if solid is False else solid)
    groups = [with_data[i:i + chunk] for i in range(0, len(with_data), chunk)]
    packed, folders, unpack = [], [], []
    for g in groups:
        blob = b"".join(d for _, d in g)
        p, coder = _pack(method, blob)
        packed.append(p)
        folders.append(b"\x01" + coder)
        unpack.append(len(blob))
    if tamper:
        packed = tamper(packed)
    h = bytearray(b"\x01")
    if groups:
        h += b"\x04"
        h += b"\x06" + _num(0) + _num(len(packed)) + b"\x09" + b"".join(_num(len(p)) for p in packed) + b"\x00"
        h += b"\x07\x0b" + _num(len(folders)) + b"\x00" + b"".join(folders)
        h += b"\x0c" + b"".join(_num(u) for u in unpack) + b"\x00"
        if substreams:
            h += b"\x08\x0d" + b"".join(_num(c) for c in (counts or [len(g) for g in groups]))
            if counts:
                flat = [len(d) for _, d in with_data] + [1] * sum(counts)
                sizes = b"".join(_num(flat.pop(0)) for c in counts for _ in range(max(c - 1, 0)))
            else:
                sizes = b"".join(_num(len(d)) for g in groups for _, d in g[:-1])
            if sizes:
                h += b"\x09" + sizes
            h += b"\x00"
        h += b"\x00"
    h += b"\x05" + _num(len(entries))
    empty_stream = [not d for _, d in entries]
    if any(empty_stream):
        v = _bits(empty_stream)
        h += b"\x0e" + _num(len(v)) + v
        ef = _bits([d is not None for _, d in entries if not d])
        h += b"\x0f" + _num(len(ef)) + ef
    names = b"\x00" + b"".join(n.encode("utf-16-le") + b"\x00\x00" for n, _ in entries)
    h += b"\x11" + _num(len(names)) + names
    if attrs is not None:
        a = b"\x01" + (b"\x00" if attr_ext else b"") + b"".join(_struct.pack("<I", x) for x in attrs)
        h += b"\x15" + _num(len(a)) + a
    h += b"\x00\x00"
    body = b"".join(packed)
    start = _struct.pack("<QQI", len(body), len(h), _zlib.crc32(bytes(h)) & 0xFFFFFFFF)
    return (b"7z\xbc\xaf\x27\x1c\x00\x04" + _struct.pack("<I", _zlib.crc32(start) & 0xFFFFFFFF)
            + start + body + bytes(h))
ROOT = tempfile.mkdtemp(prefix="t9eq")
tempfile.tempdir = ROOT


def show(value):
    text = repr(value).replace(ROOT, "<ROOT>")
    return re.sub(r"<ROOT>/tmp[a-z0-9_]{8}", "<ROOT>/<TMP>", text)


def run_archive(label, blob, name="m.7z"):
    from sharepoint2text.parsing.extractors.archive_extractor import read_archive
    print("==", label)
    try:
        res = [(r.get_metadata().filename, r.get_metadata().file_path, r.get_full_text()[:40])
               for r in read_archive(io.BytesIO(blob), name)]
    except Exception as exc:  # noqa: BLE001
        res = (type(exc).__name__, str(exc))
    print("   read_archive", show(res))
    for line in drain_log():
        print("   log", show(line))


def finish():
    print("left in temp root:", sorted(os.listdir(ROOT)))
    shutil.rmtree(ROOT)

import zipfile, tarfile
from sharepoint2text.parsing.extractors.archive_extractor import _should_skip_file

NAMES = [
    "a.txt", "dir/a.txt", ".hidden.txt", "dir/.hidden.txt", "__MACOSX/a.txt", "__MACOSX/._a.txt",
    "inner.zip", "INNER.ZIP", "x.tar", "x.tar.gz", "x.TGZ", "x.tar.bz2", "x.tbz2", "x.tar.xz", "x.txz",
    "x.7z", "x.gz", "x.bz2", "x.xz", "notes.txt.gz", "x.taz", "x.tz", "zip", ".zip", "a.zip.txt",
    "a.7z.md", "report.docx", "data.csv", "pic.png", "bin.exe", "noext", "", "a.Txt", "ünï.txt",
    "../../etc/passwd.txt", "/abs/a.txt", "C:\\x\\a.txt", "a.tar.gz.txt", "a.xzz", "a.txt ",
]
for n in NAMES:
    base = os.path.basename(n)
    try:
        print(repr(n), _should_skip_file(n, base))
    except Exception as exc:  # noqa: BLE001
        print(repr(n), type(exc).__name__, exc)

MEMBERS = [(n, ("content of " + n).encode()) for n in NAMES if n]
buf = io.BytesIO()
with zipfile.ZipFile(buf, "w", zipfile.ZIP_DEFLATED) as zf:
    for n, d in MEMBERS:
        zf.writestr(n, d)
run_archive("zip", buf.getvalue(), "m.zip")
for comp in ("", "gz", "bz2", "xz"):
    buf = io.BytesIO()
    with tarfile.open(fileobj=buf, mode="w:" + comp) as tf:
        for n, d in MEMBERS:
            ti = tarfile.TarInfo(n)
            ti.size = len(d)
            tf.addfile(ti, io.BytesIO(d))
    run_archive("tar " + comp, buf.getvalue(), "m.tar")
run_archive("7z", make_7z([(n, d) for n, d in MEMBERS if not n.startswith(("/", "C:", ".."))], "lzma2", 3))
finish()
