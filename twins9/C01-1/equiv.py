import os, sys, io, tempfile, contextlib, zipfile
sys.path.insert(0, os.getcwd())
from sharepoint2text import cli

tmp = tempfile.mkdtemp(prefix="eqv")
def w(name, data):
    p = os.path.join(tmp, name)
    with open(p, "wb") as fh:
        fh.write(data)
    return p
zbuf = io.BytesIO()
with zipfile.ZipFile(zbuf, "w") as z:
    z.writestr("a.txt", "alpha")
    z.writestr("b.md", "# beta\n")
    z.writestr("c.docx", b"not a docx")
files = [
    w("ok.txt", b"hello world\n\n"), w("empty.txt", b""), w("data.json", b'{"a": [1, 2]}'),
    w("bad.docx", b"PK\x03\x04garbage"), w("bad.pdf", b"%PDF-1.4\n%%EOF"), w("bad.xls", b"\xd0\xcf\x11\xe0" + b"\0" * 600),
    w("two.zip", zbuf.getvalue()), w("empty.zip", b"PK\x05\x06" + b"\0" * 18), w("x.unknownext", b"abc"),
    w("page.html", b"<html><head><title>T</title></head><body><p>para</p><img src='data:image/png;base64,AAAA'></body></html>"),
    w("m.eml", b"From: a@b.c\nSubject: s\n\nbody\n"), w("bad.rtf", b"{\\rtf1 \\u55357?\\u56832? x}"),
    os.path.join(tmp, "missing.txt"),
]
flagsets = [[], ["--json"], ["--json-unit"], ["--json", "--binary"], ["--binary"], ["--json-unit", "--binary"], ["--bogus"]]
for f in files:
    for flags in flagsets:
        out, err = io.StringIO(), io.StringIO()
        with contextlib.redirect_stdout(out), contextlib.redirect_stderr(err):
            try:
                rc = cli.main([f] + flags)
            except BaseException as e:
                rc = "EXC " + type(e).__name__
        print(os.path.basename(f), flags, rc, repr(out.getvalue().replace(tmp, "<T>")), repr(err.getvalue().replace(tmp, "<T>")))
