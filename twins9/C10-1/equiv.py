import io, os, re, sys, logging, tempfile, shutil

sys.path.insert(0, os.getcwd())


class _Capture(logging.Handler):
    def __init__(self):
        super().__init__(level=logging.WARNING)
        self.lines = []

    def emit(self, record):
        self.lines.append(f"{record.levelname}:{record.name}:{record.getMessage()}")


CAPTURE = _Capture()
_root_logger = logging.getLogger()
_root_logger.handlers[:] = [CAPTURE]
_root_logger.setLevel(logging.WARNING)


def drain_log():
    out, CAPTURE.lines = CAPTURE.lines, []
    return out

# ---- minimal independent 7z writer (in memory) ------------------------------
import lzma as _lzma, struct as _struct, zlib as _zlib


def _num(v):
    for extra in range(8):
        if v < (1 << (8 * extra + 7 - extra)):
            first = ((0xFF << (8 - extra)) & 0xFF) | (v >> (8 * extra))
            return bytes([first]) + (v & ((1 << (8 * extra)) - 1)).to_bytes(extra, "little")
    return b"\xff" + v.to_bytes(8, "little")


def _bits(flags):
    out = bytearray()
    cur, mask = 0, 0x80
    for f in flags:
        if f:
            cur |= mask
        mask >>= 1
        if mask == 0:
            out.append(cur)
            cur, mask = 0, 0x80
    if mask != 0x80:
        out.append(cur)
    return bytes(out)


def _pack(method, data):
    if method == "copy":
        return data, b"\x01\x00"
    if method == "lzma":
        raw = _lzma.compress(data, format=_lzma.FORMAT_ALONE,
                             filters=[{"id": _lzma.FILTER_LZMA1, "preset": 6}])
        return raw[13:], b"\x23\x03\x01\x01" + _num(5) + raw[:5]
    if method == "lzma2":
        raw = _lzma.compress(data, format=_lzma.FORMAT_RAW,
                             filters=[{"id": _lzma.FILTER_LZMA2, "dict_size": 1 << 20}])
        return raw, b"\x21\x21" + _num(1) + bytes([18])
    raise ValueError(method)


def make_7z(entries, method="copy", solid=True, tamper=None, attrs=None, attr_ext=True,
            substreams=True, counts=None):
    """entries: list of (name, data) ; data None = directory, b'' = empty file.

    solid: True = one folder, False = one folder per file, n = folders of n files."""
    with_data = [(n, d) for n, d in entries if d]
    chunk = (len(with_data) or 1) if solid is True else (1 if solid is False else solid)
    groups = [with_data[i:i + chunk] for i in range(0, len(with_data), chunk)]
    packed, folders, unpack = [], [], []
    for g in groups:
        blob = b"".join(d for _, d in g)
        p, coder = _pack(method, blob)
        packed.append(p)
        folders.append(b"\x01" + coder)
        unpack.append(len(blob))
    if tamper:
        packed = tamper(packed)
    h = bytearray(b"\x01")
    if groups:
        h += b"\x04"
        h += b"\x06" + _num(0) + _num(len(packed)) + b"\x09" + b"".join(_num(len(p)) for p in packed) + b"\x00"
        h += b"\x07\x0b" + _num(len(folders)) + b"\x00" + b"".join(folders)
        h += b"\x0c" + b"".join(_num(u) for u in unpack) + b"\x00"
        if substreams:
            h += b"\x08\x0d" + b"".join(_num(c) for c in (counts or [len(g) for g in groups]))
            if counts:
                flat = [len(d) for _, d in with_data] + [1] * sum(counts)
                sizes = b"".join(_num(flat.pop(0)) for c in counts for _ in range(max(c - 1, 0)))
            else:
                sizes = b"".join(_num(len(d)) for g in groups for _, d in g[:-1])
            if sizes:
                h += b"\x09" + sizes
            h += b"\x00"
        h += b"\x00"
    h += b"\x05" + _num(len(entries))
    empty_stream = [not d for _, d in entries]
    if any(empty_stream):
        v = _bits(empty_stream)
        h += b"\x0e" + _num(len(v)) + v
        ef = _bits([d is not None for _, d in entries if not d])
        h += b"\x0f" + _num(len(ef)) + ef
    names = b"\x00" + b"".join(n.encode("utf-16-le") + b"\x00\x00" for n, _ in entries)
    h += b"\x11" + _num(len(names)) + names
    if attrs is not None:
        a = b"\x01" + (b"\x00" if attr_ext else b"") + b"".join(_struct.pack("<I", x) for x in attrs)
        h += b"\x15" + _num(len(a)) + a
    h += b"\x00\x00"
    body = b"".join(packed)
    start = _struct.pack("<QQI", len(body), len(h), _zlib.crc32(bytes(h)) & 0xFFFFFFFF)
    return (b"7z\xbc\xaf\x27\x1c\x00\x04" + _struct.pack("<I", _zlib.crc32(start) & 0xFFFFFFFF)
            + start + body + bytes(h))
ROOT = tempfile.mkdtemp(prefix="t9eq")
tempfile.tempdir = ROOT


def show(value):
    text = repr(value).replace(ROOT, "<ROOT>")
    return re.sub(r"<ROOT>/tmp[a-z0-9_]{8}", "<ROOT>/<TMP>", text)


def run_archive(label, blob, name="m.7z"):
    from sharepoint2text.parsing.extractors.archive_extractor import read_archive
    print("==", label)
    try:
        res = [(r.get_metadata().filename, r.get_metadata().file_path, r.get_full_text()[:40])
               for r in read_archive(io.BytesIO(blob), name)]
    except Exception as exc:  # noqa: BLE001
        res = (type(exc).__name__, str(exc))
    print("   read_archive", show(res))
    for line in drain_log():
        print("   log", show(line))


def finish():
    print("left in temp root:", sorted(os.listdir(ROOT)))
    shutil.rmtree(ROOT)

from sharepoint2text.parsing.extractors.util.sevenzip import SevenZipReader

DOCS = [("top", None), ("top/a.txt", b"alpha"), ("zero1.txt", b""), ("top/b.md", b"# beta"), ("top/sub", None),
        ("top/sub/c.csv", b"x,y\n1,2\n"), ("zero2.txt", b""), ("d.json", b'{"d": 4}'), ("e.txt", b"epsilon" * 50),
        ("tail", None)]


def extract_tree(label, blob):
    """extractall into a fresh directory and list what was written."""
    target = tempfile.mkdtemp(prefix="out", dir=ROOT)
    try:
        reader = SevenZipReader(io.BytesIO(blob))
        print("   pack_sizes", reader._pack_sizes, "folders", len(reader._folders))
        reader.extractall(target)
        outcome = "ok"
    except Exception as exc:  # noqa: BLE001
        outcome = (type(exc).__name__, str(exc).replace(target, "<OUT>"))
    found = []
    for base, _dirs, files in sorted(os.walk(target)):
        for f in sorted(files):
            with open(os.path.join(base, f), "rb") as fh:
                found.append((os.path.relpath(os.path.join(base, f), target), fh.read()[:20]))
    print("   extractall", outcome, sorted(found))
    shutil.rmtree(target)


def both(label, blob):
    run_archive(label, blob)
    extract_tree(label, blob)


for method in ("copy", "lzma", "lzma2"):
    for solid in (True, False, 2, 3):
        both(f"{method} solid={solid}", make_7z(DOCS, method, solid))

for count in range(0, 5):
    subset = [e for e in DOCS if e[1]][:count]
    both(f"{count} members solid", make_7z(subset, "copy", True))
    both(f"{count} members per file", make_7z(subset, "lzma2", False))

# fewer pack streams than folders: all folders read from the first position
both("packs merged into one stream, copy", make_7z(DOCS, "copy", False, tamper=lambda p: [b"".join(p)]))
both("packs merged into one stream, lzma2", make_7z(DOCS, "lzma2", 2, tamper=lambda p: [b"".join(p)]))
both("one pack stream dropped", make_7z(DOCS, "copy", False, tamper=lambda p: p[:-1]))
both("extra empty pack stream", make_7z(DOCS, "copy", False, tamper=lambda p: p + [b""]))
both("no substreams info", make_7z(DOCS, "copy", False, substreams=False))


def corrupt(index):
    def tamper(packed):
        return [b"\xff" * len(p) if i == index else p for i, p in enumerate(packed)]
    return tamper


for index in range(3):
    both(f"lzma2 folder {index} of 3 damaged", make_7z(DOCS, "lzma2", 2, tamper=corrupt(index)))
both("lzma single folder damaged", make_7z(DOCS, "lzma", True, tamper=corrupt(0)))
finish()
