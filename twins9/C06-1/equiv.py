import io, json, os, sys, zipfile, hashlib
sys.path.insert(0, os.getcwd())
from sharepoint2text.parsing.extractors.open_office import odt_extractor as O

NSDECL = (
    'xmlns:office="urn:oasis:names:tc:opendocument:xmlns:office:1.0" '
    'xmlns:text="urn:oasis:names:tc:opendocument:xmlns:text:1.0" '
    'xmlns:style="urn:oasis:names:tc:opendocument:xmlns:style:1.0"'
)


def content(styles, body="<text:p>Hello</text:p>"):
    st = "".join(
        "<style:style%s/>" % (' style:name="%s"' % s if s is not None else "") for s in styles
    )
    return (
        f'<?xml version="1.0"?><office:document-content {NSDECL}>'
        f"<office:automatic-styles>{st}</office:automatic-styles>"
        f"<office:body><office:text>{body}</office:text></office:body></office:document-content>"
    )


def styles_xml(styles):
    st = "".join(
        "<style:style%s/>" % (' style:name="%s"' % s if s is not None else "") for s in styles
    )
    return f'<?xml version="1.0"?><office:document-styles {NSDECL}><office:styles>{st}</office:styles></office:document-styles>'


def make(content_styles, style_styles):
    buf = io.BytesIO()
    with zipfile.ZipFile(buf, "w") as zf:
        zf.writestr("mimetype", "application/vnd.oasis.opendocument.text")
        if content_styles is not None:
            zf.writestr("content.xml", content(content_styles))
        if style_styles is not None:
            zf.writestr("styles.xml", styles_xml(style_styles))
    return buf


cases = {
    "both": (["P1", "T1", "Zeta", "alpha"], ["Standard", "P1", "Heading_20_1"]),
    "dups": (["P1", "P1", "P2"], ["P2", "P2"]),
    "empty-names": (["", None, "X"], [None, "", "Y"]),
    "no-styles-xml": (["b", "a", "C"], None),
    "no-content-xml": (None, ["b", "a"]),
    "neither-has-styles": ([], []),
    "unicode": (["é", "e", "Z", "中"], ["ß", "ss"]),
    "many": ([f"S{i}" for i in range(50, 0, -1)], [f"S{i}" for i in range(25, 75)]),
}
for label, (cs, ss) in cases.items():
    buf = make(cs, ss)
    before = buf.getvalue()
    try:
        ctx = O._OdtContext(buf)
        try:
            direct = O._extract_styles_from_context(ctx)
        finally:
            ctx.close()
        print(label, "direct", direct)
    except Exception as exc:  # noqa: BLE001
        print(label, "direct EXC", type(exc).__name__, str(exc)[:100])
    try:
        buf.seek(0)
        results = list(O.read_odt(buf, "/data/x.odt"))
        digests = []
        for r in results:
            j1 = json.dumps(r.to_json(), sort_keys=True)
            list(r.iterate_units())
            j2 = json.dumps(r.to_json(), sort_keys=True)
            digests.append((r.styles, hashlib.sha256(j1.encode()).hexdigest(), j1 == j2))
        print(label, "read_odt", digests, buf.getvalue() == before)
    except Exception as exc:  # noqa: BLE001
        print(label, "read_odt EXC", type(exc).__name__, str(exc)[:100])
