import os, sys
sys.path.insert(0, os.getcwd())
import xml.etree.ElementTree as ET
from sharepoint2text.parsing.extractors.open_office import odp_extractor as m

T = "urn:oasis:names:tc:opendocument:xmlns:table:1.0"
X = "urn:oasis:names:tc:opendocument:xmlns:text:1.0"
O = "urn:oasis:names:tc:opendocument:xmlns:office:1.0"
HDR = f'xmlns:table="{T}" xmlns:text="{X}" xmlns:office="{O}"'

def tbl(inner):
    return ET.fromstring(f"<table:table {HDR}>{inner}</table:table>")

def row(*cells):
    return "<table:table-row>" + "".join(cells) + "</table:table-row>"

def cell(*paras):
    return "<table:table-cell>" + "".join(f"<text:p>{p}</text:p>" for p in paras) + "</table:table-cell>"

COV = "<table:covered-table-cell/>"
CASES = [
    "",
    row(),
    row(cell("a")),
    row(cell("a", "b"), cell()),
    row(cell("a"), COV, cell("c")) + row(COV, COV),
    row(cell("1"), cell("2")) + row(cell("3")) + row() + row(cell("4"), cell("5"), cell("6")),
    "<table:table-header-rows>" + row(cell("h1"), cell("h2")) + "</table:table-header-rows>" + row(cell("x"), cell("y")),
    row(cell("x")) + "<table:table-header-rows>" + row(cell("late header")) + "</table:table-header-rows>",
    row("<table:other/>", cell("only")),
    row("<table:other/>"),
    row("<table:table-cell><office:annotation><text:p>note</text:p></office:annotation><text:p>kept</text:p></table:table-cell>"),
    row("<table:table-cell><text:list><text:list-item><text:p>li <text:span>sp</text:span> tail</text:p></text:list-item></text:list></table:table-cell>"),
    row(cell("a<text:line-break/>b", "c<text:tab/>d<text:s text:c=\"3\"/>e")),
    "<table:table-column/>" + row(cell("")) + row(cell(" ")),
    "<table:table-row-group>" + row(cell("grouped")) + "</table:table-row-group>" + row(cell("plain")),
]
for i, c in enumerate(CASES):
    try:
        print(i, repr(m._extract_table(tbl(c))))
    except Exception as e:
        print(i, "EXC", type(e).__name__)
