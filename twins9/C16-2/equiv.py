import os, sys, io
sys.path.insert(0, os.getcwd())
from sharepoint2text.parsing.extractors.mail import mbox_email_extractor as m

SEP = b"From alice@example.org Mon Jan  1 00:00:00 2024\n"
SEP2 = b"From MAILER-DAEMON Thu Feb 29 12:34:56 2024\r\n"


def msg(subj, body, nl=b"\n"):
    return b"From: a@x.org" + nl + b"To: b@y.org" + nl + b"Subject: " + subj + nl + nl + body + nl


CASES = {
    "empty": b"",
    "no_sep": msg(b"lonely", b"text"),
    "only_sep": SEP,
    "two_seps": SEP + SEP,
    "one": SEP + msg(b"one", b"body"),
    "one_no_trailing_nl": SEP + msg(b"one", b"body").rstrip(b"\n"),
    "two": SEP + msg(b"one", b"b1") + b"\n" + SEP + msg(b"two", b"b2") + b"\n",
    "three_crlf": SEP2 + msg(b"1", b"x", b"\r\n") + b"\r\n" + SEP2 + msg(b"2", b"y", b"\r\n") + b"\r\n" + SEP2 + msg(b"3", b"z", b"\r\n"),
    "mixed_eol": SEP + msg(b"1", b"x") + SEP2 + msg(b"2", b"y", b"\r\n"),
    "escaped_from": SEP + msg(b"esc", b">From the start of a line\n>>From deeper"),
    "body_from_no_year": SEP + msg(b"b", b"From here on it is text\nFrom x y"),
    "body_from_like_sep": SEP + msg(b"b", b"before\nFrom bob@x.org Tue Jan  2 00:00:00 2024\nafter"),
    "leading_garbage": b"garbage line\n\n" + SEP + msg(b"g", b"x"),
    "empty_middle": SEP + msg(b"1", b"x") + SEP + b"\n\n" + SEP + msg(b"3", b"z"),
    "blank_lines_trailing": SEP + msg(b"1", b"x") + b"\n\n\r\n\n",
    "sep_at_eof_no_nl": SEP + msg(b"1", b"x") + SEP.rstrip(b"\n"),
    "tab_sep": b"From a@b\tJan 2024\n" + msg(b"t", b"x"),
    "from_no_space_addr": b"From  Mon Jan 1 2024\n" + msg(b"t", b"x"),
    "cr_only": SEP.replace(b"\n", b"\r") + msg(b"t", b"x", b"\r"),
    "binary": SEP + b"\x00\xff\xfe" + b"\n" + SEP + b"\x80",
}
for name, data in CASES.items():
    try:
        parts = m._split_mbox_messages(data)
        print(name, len(parts), repr(parts))
    except Exception as e:
        print(name, "EXC", type(e).__name__)
    try:
        res = list(m.read_mbox_format_mail(io.BytesIO(data)))
        print(name, "read", [(r.subject, r.body_plain) for r in res])
    except Exception as e:
        print(name, "read EXC", type(e).__name__)
